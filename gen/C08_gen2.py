"""C08 generators, second part: deep instances over recursive types, substitution-group chains, attribute-wildcard
combinations.  Every function returns a list of case dicts in the format of checks/C08.py."""
import itertools

import C08_gen as G

a, b, c, d, e = (2, 1), (2, 2), (2, 3), (2, 4), (2, 5)
for _i in range(5):
    G.LOCAL[11 + _i] = "n%d" % _i
NEST = [(2, 11 + i) for i in range(5)]
UX, VZ, Z0 = (3, 6), (4, 8), (1, 8)


# ------------------------------------------------------------------------------------------------
# 1. deep instances: n0 > n1 > n2 > n3 > n4 > n0 > ... ; every level has content that continues after the nested
#    element returns and whose validity depends on the content-model state kept per open element
# ------------------------------------------------------------------------------------------------
def deep_schema():
    el = lambda n, t="xs:string", o="": '<xs:element name="%s" type="%s"%s/>' % (n, t, o)
    nest = lambda k: '<xs:choice><xs:element ref="t:n%d"/><xs:element ref="t:e"/></xs:choice>' % k
    types = [
        '<xs:sequence>%s%s<xs:any namespace="##other" processContents="skip"/></xs:sequence>' % (el("d"), nest(1)),
        '<xs:sequence>%s<xs:any namespace="##any" processContents="skip"/>%s</xs:sequence>' % (nest(2), el("b", "xs:int")),
        '<xs:sequence>%s%s%s</xs:sequence>' % (el("a", o=' minOccurs="2" maxOccurs="3"'), nest(3), el("c", o=' minOccurs="2" maxOccurs="2"')),
        '<xs:all><xs:element ref="t:n4" minOccurs="0"/>%s%s</xs:all>' % (el("a"), el("b")),
        '<xs:sequence>%s%s%s</xs:sequence>' % (nest(0), el("b", "xs:int"), el("c", o=' maxOccurs="2"')),
    ]
    body = "".join('<xs:element name="n%d" type="t:L%d"/><xs:complexType name="L%d">%s</xs:complexType>' % (k, k, k, t)
                   for k, t in enumerate(types))
    return ('<xs:schema xmlns:xs="%s" xmlns:t="urn:t" targetNamespace="urn:t" elementFormDefault="qualified">%s'
            '<xs:element name="e" type="xs:string"/></xs:schema>' % (G.XSD, body))


DEEP_MODEL = [
    "P S 1 1 3 E 1 1 2 4 C 1 1 2 E 1 1 2 12 E 1 1 2 5 W 1 1 not 2",
    "P S 1 1 3 C 1 1 2 E 1 1 2 13 E 1 1 2 5 W 1 1 any E 1 1 2 2",
    "P S 1 1 3 E 2 3 2 1 C 1 1 2 E 1 1 2 14 E 1 1 2 5 E 2 2 2 3",
    "A 0 3 2 15 0 2 1 1 2 2 1",
    "P S 1 1 3 C 1 1 2 E 1 1 2 11 E 1 1 2 5 E 1 1 2 2 E 1 2 2 3",
]
N = "N"
# per level type: the valid child list first, then variants: (children, forced_invalid); a child = N | (qname, text)
DEEP_VARIANTS = [
    [([(d, ""), N, (UX, "")], False), ([(d, ""), N], False), ([(d, ""), N, (e, "")], False),
     ([(d, ""), N, (UX, ""), (UX, "")], False), ([(d, ""), N, (Z0, "")], False), ([(d, ""), N, (VZ, "q")], False)],
    [([N, (VZ, ""), (b, "12")], False), ([N, (VZ, ""), (b, "not-an-int")], True), ([N, (b, "12")], False),
     ([N, (e, ""), (b, "3")], False), ([N, (b, "1"), (VZ, "")], False), ([N, (Z0, ""), (b, " 5 ")], False)],
    [([(a, ""), (a, ""), N, (c, ""), (c, "")], False), ([(a, ""), (a, ""), (a, ""), N, (c, ""), (c, "")], False),
     ([(a, ""), (a, ""), N, (c, "")], False), ([(a, ""), (a, ""), N, (c, ""), (c, ""), (c, "")], False),
     ([(a, ""), N, (c, ""), (c, "")], False), ([(a, ""), (a, ""), N, (c, ""), (a, "")], False)],
    [([(b, ""), N, (a, "")], False), ([N, (a, ""), (b, "")], False), ([(b, ""), N], False),
     ([(a, ""), N, (a, ""), (b, "")], False), ([(a, ""), N, (b, ""), (c, "")], False), ([(a, ""), (b, ""), N], False)],
    [([N, (b, "7"), (c, "")], False), ([N, (b, "x7"), (c, "")], True), ([N, (b, "7"), (c, ""), (c, "")], False),
     ([N, (b, "7"), (c, ""), (c, ""), (c, "")], False), ([N, (c, "")], False), ([N, (b, "7")], False)],
]


def deep_instance(depth, observed, variant):
    """levels 0..depth-1; level i has type i%5; the observed level carries the variant, all others the valid list"""
    def render(i):
        k = i % 5
        kids = variant if i == observed else DEEP_VARIANTS[k][0][0]
        out = ""
        for ch in kids:
            if ch == N:
                if i + 1 < depth:
                    out += render(i + 1)
                elif k != 3:
                    out += "<t:e/>"
            else:
                q, txt = ch
                out += "<%s>%s</%s>" % (G.tagname(q), txt, G.tagname(q)) if txt else "<%s/>" % G.tagname(q)
        attrs = ' xmlns:t="urn:t" xmlns:u="urn:u" xmlns:v="urn:v"' if i == 0 else ""
        return "<t:n%d%s>%s</t:n%d>" % (k, attrs, out, k)
    return render(0)


def deep_word(depth, observed, variant):
    k = observed % 5
    w = []
    for ch in variant:
        if ch == N:
            if observed + 1 < depth:
                w.append(NEST[(observed + 1) % 5])
            elif k != 3:
                w.append(e)
        else:
            w.append(ch[0])
    return w


def deep_cases(rng, thorough):
    doc = deep_schema()
    depths = [2, 6, 15, 16, 17, 18, 21, 31, 33, 40, 64, 65, 70] if not thorough else list(range(1, 72))
    cases = []
    for k in range(5):
        items = []
        for D in depths:
            levels = [j for j in range(k, D, 5)]
            if not thorough and len(levels) > 5:
                levels = sorted(set(levels[:3] + [levels[-1]] + rng.sample(levels, 2)))
            for j in levels:
                vs = DEEP_VARIANTS[k] if (thorough or D in (17, 18, 33, 65) or rng.random() < 0.4) else DEEP_VARIANTS[k][:2]
                for kids, forced in vs:
                    items.append((deep_instance(D, j, kids), deep_word(D, j, kids), forced, (D, j)))
        model = "cm %s ; %s" % (DEEP_MODEL[k], " ; ".join(",".join(G.qtext(q) for q in w) or "-" for _, w, _, _ in items))
        req = G.request(model, [("main.xsd", doc)], "main.xsd", [t for t, _, _, _ in items])
        cases.append({"kind": "deep-recursive", "request": req, "n": len(items), "strict_penalty": [f for _, _, f, _ in items],
                      "words": [w for _, w, _, _ in items],
                      "info": {"level_type": k, "depth_observed": [x[3] for x in items]}})
    return cases


# ------------------------------------------------------------------------------------------------
# 2. substitution groups over type derivation chains T1 <- T2 <- T3 <- T4
# ------------------------------------------------------------------------------------------------
def _chain_types(methods, tblocks, abstract_types=()):
    """complex types T1..T4; methods[k-2] in 'e','r' = how Tk is derived from T(k-1); tblocks[k-1] = block attr or None"""
    E = lambda m, n, q: ("E", m, n, q, "local")
    new_el = {2: b, 3: c, 4: d}
    content = {1: ("S", 1, 1, [E(0, 2, a)], "inline")}
    sc = G.Schema()
    out = ""
    for k in (1, 2, 3, 4):
        attrs = ""
        if tblocks[k - 1] is not None:
            attrs += ' block="%s"' % tblocks[k - 1]
        if k in abstract_types:
            attrs += ' abstract="true"'
        if k == 1:
            out += '<xs:complexType name="T1"%s>%s</xs:complexType>' % (attrs, sc.render_particle(content[1]))
            continue
        if methods[k - 2] == "e":
            own = ("S", 1, 1, [E(0, 1, new_el[k])], "inline")
            content[k] = ("S", 1, 1, [content[k - 1], own], "inline")
            inner = '<xs:extension base="t:T%d">%s</xs:extension>' % (k - 1, sc.render_particle(own))
        else:
            content[k] = content[k - 1]
            inner = '<xs:restriction base="t:T%d">%s</xs:restriction>' % (k - 1, sc.render_particle(content[k]))
        out += '<xs:complexType name="T%d"%s><xs:complexContent>%s</xs:complexContent></xs:complexType>' % (k, attrs, inner)
    return out


def _bits(v, subst=False):
    v = v or ""
    s = "%d%d" % (1 if ("extension" in v or "#all" in v) else 0, 1 if ("restriction" in v or "#all" in v) else 0)
    if subst:
        s += "1" if ("substitution" in v or "#all" in v) else "0"
    return s


def subst_cases(rng, thorough):
    eblk = [None, "", "extension", "restriction", "substitution", "#all", "extension substitution", "restriction extension"]
    tblk = [None, None, "", "extension", "restriction", "#all"]
    bdef = [None, None, "extension", "restriction", "substitution", "#all"]
    fixed = [  # (methods, k1, k2, head block, type blocks, blockDefault)
        (("e", "r", "e"), 3, 4, None, [None, None, None, None], None),
        (("e", "r", "e"), 3, 4, None, ["extension", None, None, None], None),      # block on the head's type only
        (("e", "r", "e"), 3, 4, None, [None, None, "extension", None], None),      # block on the member's own type only
        (("r", "e", "e"), 3, 3, None, [None, "extension", None, None], None),      # block on an intermediate type only
        (("r", "e", "r"), 2, 4, None, ["restriction", None, None, None], None),
        (("e", "e", "e"), 2, 3, "extension", [None, None, None, None], None),
        (("r", "r", "e"), 2, 2, "substitution", [None, None, None, None], None),
        (("e", "r", "e"), 2, 4, None, [None, None, None, None], "restriction"),
        (("e", "r", "e"), 4, 4, None, [None, None, None, "#all"], None),
    ]
    n = 55 if not thorough else 800
    cfgs = list(fixed)
    for _ in range(n):
        k1 = rng.randrange(1, 5)
        cfgs.append((tuple(rng.choice("er") for _ in range(3)), k1, rng.randrange(k1, 5), rng.choice(eblk),
                     [rng.choice(tblk) for _ in range(4)], rng.choice(bdef)))
    cases = []
    for methods, k1, k2, hb, tbs, bd in cfgs:
        abstract_head = rng.random() < 0.15
        abstract_m1 = rng.random() < 0.1
        m1_block = rng.choice([None, None, "substitution", "#all"])
        types = _chain_types(methods, tbs)
        sattr = "" if bd is None else ' blockDefault="%s"' % bd
        hattr = ("" if hb is None else ' block="%s"' % hb) + (' abstract="true"' if abstract_head else "")
        m1attr = ("" if m1_block is None else ' block="%s"' % m1_block) + (' abstract="true"' if abstract_m1 else "")
        doc = ('<xs:schema xmlns:xs="%s" xmlns:t="urn:t" targetNamespace="urn:t" elementFormDefault="qualified"%s>'
               '<xs:element name="r"><xs:complexType><xs:sequence><xs:element ref="t:h"/></xs:sequence></xs:complexType></xs:element>'
               '<xs:element name="h" type="t:T1"%s/>'
               '<xs:element name="m1" type="t:T%d" substitutionGroup="t:h"%s/>'
               '<xs:element name="m2" type="t:T%d" substitutionGroup="t:m1"/>'
               '<xs:element name="x" type="t:T1"/>%s</xs:schema>' % (G.XSD, sattr, hattr, k1, m1attr, k2, types))
        eff = lambda v: v if v is not None else (bd or "")
        tbits = [_bits(eff(t)) for t in tbs]
        chain = lambda k: ",".join("%d:%s:%s" % (j, methods[j - 2] if j > 1 else "r", tbits[j - 1]) for j in range(k, 0, -1))
        items = [("h", "1 - %s" % chain(1), abstract_head), ("m1", "2 1 %s" % chain(k1), abstract_m1),
                 ("m2", "3 2,1 %s" % chain(k2), False), ("x", "4 - %s" % chain(1), False)]
        insts = ['<t:r xmlns:t="urn:t"><t:%s><t:a/></t:%s></t:r>' % (nm, nm) for nm, _, _ in items]
        model = "sg 1 %s 1 ; %s" % (_bits(eff(hb), True), " ; ".join(it for _, it, _ in items))
        req = G.request(model, [("main.xsd", doc)], "main.xsd", insts)
        cases.append({"kind": "substgroup-chain", "request": req, "n": len(items), "strict_penalty": [f for _, _, f in items],
                      "words": [[(2, 20 + i)] for i in range(len(items))],
                      "info": {"methods": "".join(methods), "m1_type": k1, "m2_type": k2, "head_block": hb,
                               "type_blocks": tbs, "blockDefault": bd, "abstract_head": abstract_head,
                               "abstract_m1": abstract_m1, "m1_block": m1_block}})
    return cases


# ------------------------------------------------------------------------------------------------
# 3. attribute wildcards combined through attribute groups (intersection) and extension (union)
# ------------------------------------------------------------------------------------------------
WLEAVES = [(("any",), "##any"), (("not", 2), "##other"), (("set", [1]), "##local"), (("set", [2]), "##targetNamespace"),
           (("set", [1, 3]), "##local urn:u"), (("set", [2, 4]), "##targetNamespace urn:v"), (("set", [3, 4]), "urn:u urn:v"),
           (("set", [1, 2, 3]), "##local ##targetNamespace urn:u"), (("set", [4]), "urn:v")]


def _wl(c):
    if c[0] == "any":
        return "L any"
    if c[0] == "not":
        return "L not %d" % c[1]
    return "L set %d %s" % (len(c[1]), " ".join(map(str, c[1])))


def _anyattr(txt):
    return '<xs:anyAttribute namespace="%s" processContents="skip"/>' % txt


def attwild_cases(rng, thorough):
    HDR = ('<xs:schema xmlns:xs="%s" xmlns:t="urn:t" targetNamespace="urn:t" elementFormDefault="qualified">' % G.XSD)
    grp = lambda name, txt, extra="": '<xs:attributeGroup name="%s">%s%s</xs:attributeGroup>' % (name, extra, _anyattr(txt))
    shapes = []
    pairs = list(itertools.product(range(len(WLEAVES)), repeat=2))
    triples = list(itertools.product(range(len(WLEAVES)), repeat=3))
    rng.shuffle(triples)
    if not thorough:
        triples = triples[:24]
    for i, j in pairs:
        (ci, ti), (cj, tj) = WLEAVES[i], WLEAVES[j]
        # local anyAttribute + one attribute group
        shapes.append(("local+group", "I %s %s" % (_wl(ci), _wl(cj)),
                       '<xs:element name="r"><xs:complexType><xs:attributeGroup ref="t:g1"/>%s</xs:complexType></xs:element>%s'
                       % (_anyattr(ti), grp("g1", tj))))
        # two attribute groups
        if thorough or (i + j) % 2 == 0 or i == 0:
          shapes.append(("group+group", "I %s %s" % (_wl(ci), _wl(cj)),
                       '<xs:element name="r"><xs:complexType><xs:attributeGroup ref="t:g1"/><xs:attributeGroup ref="t:g2"/>'
                       '</xs:complexType></xs:element>%s%s' % (grp("g1", ti), grp("g2", tj))))
        # extension: own wildcard united with the base type's
        shapes.append(("extension", "U %s %s" % (_wl(ci), _wl(cj)),
                       '<xs:element name="r" type="t:D"/><xs:complexType name="B">%s</xs:complexType>'
                       '<xs:complexType name="D"><xs:complexContent><xs:extension base="t:B">%s</xs:extension></xs:complexContent>'
                       '</xs:complexType>' % (_anyattr(tj), _anyattr(ti))))
        # attribute group inside an attribute group
        if thorough or (i + j) % 3 == 0:
            # the referenced group's wildcard comes first in the group's list of anyAttributes (document order)
            shapes.append(("nested-group", "I %s %s" % (_wl(cj), _wl(ci)),
                           '<xs:element name="r"><xs:complexType><xs:attributeGroup ref="t:g1"/></xs:complexType></xs:element>%s%s'
                           % (grp("g1", ti, '<xs:attributeGroup ref="t:g0"/>'), grp("g0", tj))))
    # witness of C08-attwild-emptyunion first: (##other /\ ##local) \/ ##other
    triples = [(1, 2, 1)] + [t for t in triples if t != (1, 2, 1)]
    for i, j, k in triples:
        (ci, ti), (cj, tj), (ck, tk) = WLEAVES[i], WLEAVES[j], WLEAVES[k]
        shapes.append(("local+2groups", "I %s I %s %s" % (_wl(ci), _wl(cj), _wl(ck)),
                       '<xs:element name="r"><xs:complexType><xs:attributeGroup ref="t:g1"/><xs:attributeGroup ref="t:g2"/>%s'
                       '</xs:complexType></xs:element>%s%s' % (_anyattr(ti), grp("g1", tj), grp("g2", tk))))
        shapes.append(("extension-of-groups", "U I %s %s %s" % (_wl(ci), _wl(cj), _wl(ck)),
                       '<xs:element name="r" type="t:D"/><xs:complexType name="B">%s</xs:complexType>'
                       '<xs:complexType name="D"><xs:complexContent><xs:extension base="t:B"><xs:attributeGroup ref="t:g1"/>%s'
                       '</xs:extension></xs:complexContent></xs:complexType>%s' % (_anyattr(tk), _anyattr(ti), grp("g1", tj))))
    # extension without own wildcard (inherits), restriction with a narrower own wildcard
    for i in range(len(WLEAVES)):
        ci, ti = WLEAVES[i]
        shapes.append(("extension-inherits", _wl(ci),
                       '<xs:element name="r" type="t:D"/><xs:complexType name="B">%s</xs:complexType>'
                       '<xs:complexType name="D"><xs:complexContent><xs:extension base="t:B"><xs:attribute name="q" type="xs:string"/>'
                       '</xs:extension></xs:complexContent></xs:complexType>' % _anyattr(ti)))
        shapes.append(("restriction-of-any", _wl(ci),
                       '<xs:element name="r" type="t:D"/><xs:complexType name="B">%s</xs:complexType>'
                       '<xs:complexType name="D"><xs:complexContent><xs:restriction base="t:B">%s</xs:restriction></xs:complexContent>'
                       '</xs:complexType>' % (_anyattr("##any"), _anyattr(ti))))
    atts = [(1, ' zz="1"'), (2, ' t:tt="1"'), (3, ' u:uu="1"'), (4, ' v:zz="1"')]
    cases = []
    for shape, expr, body in shapes:
        doc = HDR + body + "</xs:schema>"
        insts = ['<t:r xmlns:t="urn:t" xmlns:u="urn:u" xmlns:v="urn:v"%s/>' % t for _, t in atts]
        model = "aw %s ; %s" % (expr, " ".join(str(u) for u, _ in atts))
        req = G.request(model, [("main.xsd", doc)], "main.xsd", insts)
        cases.append({"kind": "attwildcard-" + shape, "request": req, "n": len(atts), "strict_penalty": [False] * len(atts),
                      "attwild": True, "words": [[(u, 0)] for u, _ in atts], "info": {"expr": expr}})
    return cases
