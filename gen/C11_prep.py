"""C11: the pre-filter data RegularExpression::prepare computes -- fMinLength (Token::getMinLength) and fFirstChar
(Token::analyzeFirstCharacter) -- read back from the compiled expression by `bin/xh_C11 prep <opts> <pat>` and
compared with the extracted model ModelPre11.prepare_info (`bin/xm_C11 prep <sw> <pat>`), about which
Properties_C11.v proves NECESSITY (T11_minlen_necessary, T11_firstchar_necessary, T11_search_leftmost,
T11_prefilter_transparent).

Model-free Spec oracles on the implementation's answer (a word of the language is built from the generator's syntax
tree and CONFIRMED by the specification's matcher dmatch_re before it is used as a witness):
  P1  fMinLength <= UTF-16 length of every word of the language  (else matches() rejects that word unseen);
  P2  when a head-character set is installed, no word of the language is empty and every word starts with a member;
  P3  in schema mode (option X) and with option H no head-character set is installed.
Generators: expressions of the common subset of the two dialects to depth 3 (same grammar as the schema sweep, pools
with characters >= U+0100 and supplementary ones) + the shapes the case splits of fc_tok_spec / minlen_u_necessary are
about: optional / starred / {n,m} prefixes in front of classes, unions with an empty or '.' branch, negated classes,
literal runs that start with a supplementary character, nested groups."""
import C11 as B
import C11_xp as X

REP = {'s': 0x20, 'S': 0x61, 'd': 0x30, 'D': 0x61, 'w': 0x61, 'W': 0x20, 'i': 0x61, 'I': 0x30, 'c': 0x61, 'C': 0x20}
EXTRA = [0x78, 0x30, 0x20, 0x10000, 0x436, 0x21]


def cls_candidates(c):
    neg, items, sub = c
    own = []
    for it in items:
        if it[0] == 'c':
            own.append(it[1])
        elif it[0] == 'r':
            own += [it[1], it[2]]
        elif it[0] == 'k':
            own.append(REP[it[1]])
    return (EXTRA + own) if neg else (own + EXTRA)


def sample_word(n, rng, shortest):
    """a candidate word of the expression (classes are guessed: the Spec confirms or discards the word)"""
    k = n[0]
    if k == 'chr':
        return [n[1]]
    if k == 'dot':
        return [0x78 if shortest else rng.choice([0x78, 0x10000, 0x436])]
    if k == 'named':
        return [REP[n[1]]]
    if k == 'cls':
        cand = cls_candidates(n[1])
        return [cand[0] if shortest else rng.choice(cand)]
    if k == 'eps':
        return []
    if k == 'grp':
        return sample_word(n[1], rng, shortest)
    if k == 'cat':
        return [x for c in n[1] for x in sample_word(c, rng, shortest)]
    if k == 'alt':
        if shortest:
            return min((sample_word(c, rng, True) for c in n[1]), key=X.units)
        return sample_word(rng.choice(n[1]), rng, False)
    _, lo, hi, c, _ = n
    cnt = lo if shortest else rng.choice([lo, lo, lo + 1 if (hi is None or hi > lo) else lo])
    return [x for _ in range(cnt) for x in sample_word(c, rng, shortest)]


def in_ranges(flat, c):
    return any(flat[i] <= c <= flat[i + 1] for i in range(0, len(flat) - 1, 2))


def parse_prep(ans):
    """'ok <minlen> <fc>' -> (minlen, None | [lo, hi, ...])"""
    f = ans.split()
    if len(f) != 3 or f[0] != "ok":
        return None
    fc = None if f[2] == "-" else ([] if f[2] == "e" else [int(f[2][i:i + 6], 16) for i in range(0, len(f[2]), 6)])
    return int(f[1]), fc


def gen(ctx):
    rng = ctx.rng
    thorough = ctx.tier == "thorough"
    out = []

    def add(kind, e, opts="-"):
        pat = B.print_re(e)
        if len(pat) > 60 or B.bad_for_model(pat):
            return
        out.append({"kind": kind, "expr": e, "pat": pat, "opts": opts})

    for _ in range(4000 if thorough else 230):
        sigma, foreign = rng.choices(X.POOLS, X.WEIGHTS)[0]
        g = B.ReGen(rng, sigma, foreign)
        e = g.expr(rng.choice([1, 2, 2, 3, 3]))
        add("prep-expr", e, rng.choice(["-", "-", "-", "-", "X", "H", "s"]))
    # aimed shapes
    HIGH = [0x436, 0x3A9, 0x3000, 0xFF, 0x100]
    SUPP = [0x10000, 0x1D11E, 0x10400]
    for _ in range(1200 if thorough else 90):
        lo = rng.choice([0x61, 0x62, 0x64])
        items = [('r', lo, lo + rng.choice([0, 1, 4]))] + [('c', c) for c in rng.sample(HIGH, rng.choice([0, 1, 2]))]
        if rng.random() < 0.4:
            items.append(('c', rng.choice(SUPP)))
        rng.shuffle(items)
        C = ('cls', (rng.random() < 0.15, items, None))
        lit = ('cat', [('chr', rng.choice(SUPP + HIGH + [0x61])), ('chr', rng.choice([0x62, 0x21, 0x10000]))])
        head = rng.choice([C, C, lit, ('chr', rng.choice(SUPP + [0x7A])), ('dot',), ('named', rng.choice("sdwSDW"))])
        n = rng.choice([0, 1, 2, 3])
        pre = rng.choice([
            ('rep', 0, 1, ('chr', rng.choice([lo, 0x78])), '?'),
            ('rep', 0, None, ('cls', (False, [('r', 0x61, 0x66)], None)), '*'),
            ('rep', n, n + rng.choice([0, 1, 2]), ('chr', 0x71), 'n,m'),
            ('rep', n, None, ('grp', ('alt', [('chr', 0x71), ('chr', 0x10000)])), 'n,'),
            ('rep', n, n, ('grp', ('cat', [('chr', 0x71), ('chr', 0x72)])), 'n'),
            ('grp', ('alt', [('chr', 0x71), ('eps',)])),
            ('grp', ('alt', [('chr', 0x71), ('dot',)])),
            ('grp', ('alt', [('rep', 0, None, ('chr', 0x71), '*'), ('chr', 0x72)])),
            ('grp', ('alt', [lit, ('chr', 0x72), ('grp', ('alt', [('chr', 0x73), ('cls', (False, [('c', 0x3A9)], None))]))])),
            ('rep', 1, None, ('grp', ('alt', [('chr', 0x71), ('eps',)])), '+'),
        ])
        tail = rng.choice([[], [('chr', 0x7A)], [('rep', 2, 3, ('chr', 0x7A), 'n,m')], [lit]])
        shape = rng.choice(["pre-head", "pre-head", "head", "pre", "alt"])
        if shape == "pre-head":
            e = ('cat', [pre, head] + tail)
        elif shape == "head":
            e = ('cat', [head] + tail) if tail else head
        elif shape == "pre":
            e = ('cat', [pre] + tail) if tail else pre
        else:
            e = ('alt', [('cat', [pre, head]), ('cat', [head] + tail) if tail else head])
        add("prep-aimed", e, rng.choice(["-", "-", "-", "-", "-", "X", "H"]))
    return out


def model_line(case, swbits):
    return "prep %s %s" % (swbits, B.hx(case["pat"]))


def impl_line(case):
    return "prep %s %s" % (case["opts"], B.hx(case["pat"]))


def words_for(case, rng, n=7):
    ws = [sample_word(case["expr"], rng, True)] + [sample_word(case["expr"], rng, False) for _ in range(n - 1)]
    seen, out = set(), []
    for w in ws:
        if tuple(w) not in seen and len(w) <= 40:
            seen.add(tuple(w))
            out.append(w)
    return out


def spec_line(case, words):
    single = "s" in case["opts"]
    ast = B.ast_re(case["expr"]) if "X" in case["opts"] else X.ast_xp(case["expr"], single)
    return "spec %s %s" % (ast, ",".join(B.hx(w) for w in words))


def judge(case, impl, words, bits):
    """Spec oracles P1..P3 on the implementation's answer; returns (oracle, detail, witness) or None"""
    p = parse_prep(impl)
    if p is None:
        return None
    minlen, fc = p
    if ("X" in case["opts"] or "H" in case["opts"]) and fc is not None:
        return ("P3-no-headchar", "a head-character set is installed with options %s" % case["opts"], None)
    for w, b in zip(words, bits):
        if b != "1":
            continue
        if minlen > X.units(w):
            return ("P1-minlength", "fMinLength = %d, but the language contains a word of %d UTF-16 units" % (minlen, X.units(w)), w)
        if fc is not None and not w:
            return ("P2-headchar", "a head-character set is installed, but the empty word belongs to the language", w)
        if fc is not None and not in_ranges(fc, w[0]):
            return ("P2-headchar", "the word starts with U+%04X, which is not in the head-character set" % w[0], w)
    return None
