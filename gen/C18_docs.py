"""Document pool for C18 (monitored exploration): well-formed, malformed, DTD-valid/invalid, with entities
(internal, external through the resolver, parameter entities), schema-valid/invalid.  Everything derives from the
rng handed in.  Each item: dict(kind=..., doc=bytes, ext={name: bytes}, cfg={harness settings})."""

NAMES = ["a", "b", "c", "d", "item", "x:e", "n1", "long-element-name", "k"]


def _text(rng):
    pool = ["t", "hello world", "  ", "x&amp;y", "&#65;&#x42;", "1 &lt; 2", "\n  ", "café", "z" * rng.choice([1, 5, 40, 300]),
            "<![CDATA[c<d]]>", "<!-- com -->", "<?pi data?>"]
    return rng.choice(pool)


def _attrs(rng, names):
    out = []
    for n in rng.sample(names, rng.randrange(0, min(3, len(names)) + 1)):
        out.append('%s="%s"' % (n, rng.choice(["1", "v w", "", "a&amp;b", "x" * 30, "&#9;t"])))
    return (" " + " ".join(out)) if out else ""


def wf_tree(rng, depth=0, ns=False):
    name = rng.choice(["a", "b", "c", "d", "item", "k"])
    at = _attrs(rng, ["p", "q", "r"])
    if ns and depth == 0:
        at += ' xmlns:x="urn:x" xmlns="urn:d"'
    if depth > 3 or rng.random() < 0.25:
        if rng.random() < 0.4:
            return "<%s%s/>" % (name, at)
        return "<%s%s>%s</%s>" % (name, at, _text(rng), name)
    kids = "".join(wf_tree(rng, depth + 1, ns) if rng.random() < 0.7 else _text(rng) for _ in range(rng.randrange(1, 5)))
    if ns and rng.random() < 0.3:
        return "<x:%s%s>%s</x:%s>" % (name, at, kids, name)
    return "<%s%s>%s</%s>" % (name, at, kids, name)


def wf_doc(rng):
    ns = rng.random() < 0.4
    decl = rng.choice(['', '<?xml version="1.0"?>', '<?xml version="1.0" encoding="UTF-8"?>', '<?xml version="1.1"?>'])
    body = wf_tree(rng, 0, ns)
    tail = rng.choice(["", "\n", "<!-- end -->", "<?p q?>"])
    return (decl + body + tail).encode("utf-8")


def malform(rng, doc):
    s = bytearray(doc)
    how = rng.randrange(8)
    if how == 0 and len(s) > 4:
        return bytes(s[:rng.randrange(1, len(s))])                 # truncation
    if how == 1 and len(s) > 4:
        i = rng.randrange(len(s)); del s[i]; return bytes(s)       # one byte lost
    if how == 2:
        i = rng.randrange(len(s) + 1); s[i:i] = b"<"; return bytes(s)
    if how == 3:
        i = rng.randrange(len(s) + 1); s[i:i] = b"&nosuch;"; return bytes(s)
    if how == 4:
        return bytes(s).replace(b"</a>", b"</b>", 1) + b""
    if how == 5:
        return bytes(s) + b"<extra/>"                                # second root
    if how == 6:
        i = rng.randrange(len(s) + 1); s[i:i] = bytes([rng.choice([0x00, 0x01, 0xFF, 0xC0, 0x80])]); return bytes(s)
    return bytes(s).replace(b' p="', b' p="1" p="', 1) + (b"" if b' p="' in s else b"</nope>")


DTD_DECLS = """<!ELEMENT r (h?, (a | b)*, c?)>
<!ELEMENT h (#PCDATA)>
<!ELEMENT a (#PCDATA | b)*>
<!ELEMENT b EMPTY>
<!ELEMENT c (a, b+)>
<!ATTLIST r id ID #IMPLIED ver CDATA "1.0">
<!ATTLIST a kind (x|y|z) "x" ref IDREF #IMPLIED toks NMTOKENS #IMPLIED>
<!ATTLIST b id ID #REQUIRED note CDATA #IMPLIED>
<!ENTITY e1 "entity text">
<!ENTITY e2 "<b id='ie2'/>nested &e1;">
<!ENTITY % pe "<!ENTITY e3 'from pe'>">
%pe;
<!NOTATION gif SYSTEM "viewer">
<!ENTITY pic SYSTEM "pic.gif" NDATA gif>
<!ATTLIST h img ENTITY #IMPLIED>
"""


def dtd_instance(rng, valid=True):
    ids = []
    def b():
        i = "i%d" % len(ids); ids.append(i)
        note = ' note="n"' if rng.random() < 0.3 else ""
        return '<b id="%s"%s/>' % (i, note)
    def a():
        kids = "".join(rng.choice(["txt", "&e1;", "&e2;", "&e3;", b(), " "]) for _ in range(rng.randrange(0, 4)))
        at = rng.choice(["", ' kind="y"', ' toks="t1 t2  t3"', ' kind="z" toks="q"'])
        if ids and rng.random() < 0.3:
            at += ' ref="%s"' % rng.choice(ids)
        return "<a%s>%s</a>" % (at, kids)
    body = ""
    if rng.random() < 0.5:
        body += "<h%s>head</h>" % (' img="pic"' if rng.random() < 0.5 else "")
    for _ in range(rng.randrange(0, 5)):
        body += a() if rng.random() < 0.6 else b()
    if rng.random() < 0.4:
        body += "<c>%s%s%s</c>" % (a(), b(), b() if rng.random() < 0.5 else "")
    root_at = rng.choice(["", ' id="root"', ' ver="2"'])
    if not valid:
        how = rng.randrange(6)
        if how == 0: body += "<undeclared/>"
        elif how == 1: body = "<c/>" + body
        elif how == 2: body += '<b/>'
        elif how == 3: body += '<a ref="missing"/>'
        elif how == 4: body += '<b id="i0"/><b id="i0"/>'
        else: body += '<a kind="q"/>'
    return "<r%s>%s</r>" % (root_at, body)


def dtd_doc(rng, valid=True):
    """returns (doc, ext)"""
    inst = dtd_instance(rng, valid)
    where = rng.randrange(3)
    ext = {"pic.gif": b"GIF"}
    if where == 0:
        doc = "<!DOCTYPE r [\n%s]>%s" % (DTD_DECLS, inst)
    elif where == 1:
        doc = '<!DOCTYPE r SYSTEM "ext.dtd">%s' % inst
        ext["ext.dtd"] = DTD_DECLS.encode()
    else:
        doc = '<!DOCTYPE r SYSTEM "ext.dtd" [<!ENTITY ex SYSTEM "ent1.xml"><!ENTITY e1 "override">]>%s' % inst.replace("txt", "&ex;", 1)
        ext["ext.dtd"] = DTD_DECLS.encode()
        ext["ent1.xml"] = rng.choice([b"<?xml version='1.0' encoding='UTF-8'?>external <b id='xe'/> text", b"plain", b"<b id='xe'/>",
                                      b"<unclosed>"])
    if rng.random() < 0.15:
        doc = doc.replace('SYSTEM "ext.dtd"', 'SYSTEM "missing.dtd"')
    return ('<?xml version="1.0"?>' + doc).encode("utf-8"), ext


XSD = """<?xml version="1.0"?>
<xs:schema xmlns:xs="http://www.w3.org/2001/XMLSchema" elementFormDefault="qualified">
 <xs:simpleType name="code"><xs:restriction base="xs:string"><xs:pattern value="[A-Z]{2}[0-9]+"/><xs:maxLength value="8"/></xs:restriction></xs:simpleType>
 <xs:simpleType name="nums"><xs:list itemType="xs:int"/></xs:simpleType>
 <xs:simpleType name="u"><xs:union memberTypes="xs:date xs:decimal"/></xs:simpleType>
 <xs:complexType name="base"><xs:sequence><xs:element name="name" type="xs:string"/></xs:sequence><xs:attribute name="id" type="xs:ID"/></xs:complexType>
 <xs:complexType name="ext"><xs:complexContent><xs:extension base="base"><xs:sequence>
   <xs:element name="code" type="code" minOccurs="0" maxOccurs="3"/>
   <xs:choice minOccurs="0" maxOccurs="unbounded"><xs:element name="n" type="nums"/><xs:element name="u" type="u"/></xs:choice>
 </xs:sequence><xs:attribute name="when" type="xs:dateTime"/><xs:attribute name="q" type="xs:decimal" default="1.5"/></xs:extension></xs:complexContent></xs:complexType>
 <xs:element name="root"><xs:complexType><xs:sequence>
   <xs:element name="item" type="ext" maxOccurs="unbounded"/>
   <xs:element name="refto" minOccurs="0" maxOccurs="unbounded"><xs:complexType><xs:attribute name="k" type="xs:string"/></xs:complexType></xs:element>
   <xs:any namespace="##other" processContents="lax" minOccurs="0"/>
 </xs:sequence></xs:complexType>
  <xs:key name="itemKey"><xs:selector xpath="item"/><xs:field xpath="name"/></xs:key>
  <xs:keyref name="itemRef" refer="itemKey"><xs:selector xpath="refto"/><xs:field xpath="@k"/></xs:keyref>
 </xs:element>
</xs:schema>
"""


def xsd_instance(rng, valid=True):
    items = []
    names = []
    for i in range(rng.randrange(1, 4)):
        nm = "nm%d" % i
        names.append(nm)
        s = "<name>%s</name>" % nm
        for _ in range(rng.randrange(0, 3)):
            s += "<code>%s</code>" % rng.choice(["AB12", "ZZ9", "QQ123456"])
        for _ in range(rng.randrange(0, 3)):
            s += rng.choice(["<n>1 2 3</n>", "<n/>", "<u>2001-01-01</u>", "<u>3.25</u>"])
        at = rng.choice(["", ' id="x%d"' % i, ' when="2001-10-26T21:32:52"', ' q="2.0"'])
        items.append("<item%s>%s</item>" % (at, s))
    refs = "".join('<refto k="%s"/>' % rng.choice(names) for _ in range(rng.randrange(0, 3)))
    other = '<o:x xmlns:o="urn:other"><o:y/></o:x>' if rng.random() < 0.3 else ""
    if not valid:
        how = rng.randrange(6)
        if how == 0: items.append("<item><name>a</name><code>bad</code></item>")
        elif how == 1: items.append("<item><code>AB1</code></item>")
        elif how == 2: refs += '<refto k="nokey"/>'
        elif how == 3: items.append("<item><name>nm0</name></item>")
        elif how == 4: items.append('<item when="yesterday"><name>w</name><n>1 x</n></item>')
        else: items.append("<item><name>a</name><zzz/></item>")
    return ('<root xmlns:xsi="http://www.w3.org/2001/XMLSchema-instance" xsi:noNamespaceSchemaLocation="s.xsd">%s%s%s</root>'
            % ("".join(items), refs, other))


def xsd_doc(rng, valid=True):
    ext = {"s.xsd": XSD.encode()}
    if rng.random() < 0.1:
        ext = {"s.xsd": XSD.replace("</xs:schema>", "<xs:element name='dup' type='nosuch'/></xs:schema>").encode()}
    if rng.random() < 0.07:
        ext = {"s.xsd": XSD[:len(XSD) // 2].encode()}
    return ('<?xml version="1.0"?>' + xsd_instance(rng, valid)).encode("utf-8"), ext


def pool(rng, n):
    """n documents, mixed kinds; deterministic in rng"""
    out = []
    kinds = ["wf", "wf", "malformed", "malformed", "dtd-valid", "dtd-valid", "dtd-invalid", "dtd-malformed",
             "xsd-valid", "xsd-invalid", "xsd-malformed", "entities"]
    for i in range(n):
        kind = kinds[i % len(kinds)]
        ext = {}
        cfg = {}
        if kind == "wf":
            doc = wf_doc(rng)
            cfg = dict(val=rng.choice([0, 0, 2]), ns=rng.choice([0, 1]), sch=0)
        elif kind == "malformed":
            doc = malform(rng, wf_doc(rng))
            cfg = dict(val=rng.choice([0, 2]), ns=rng.choice([0, 1]), sch=rng.choice([0, 1]))
        elif kind in ("dtd-valid", "dtd-invalid", "entities"):
            doc, ext = dtd_doc(rng, kind != "dtd-invalid")
            cfg = dict(val=rng.choice([1, 1, 2, 0]), ns=rng.choice([0, 1]), sch=0)
            if kind == "entities":
                cfg["ents"] = rng.choice([0, 1])
        elif kind == "dtd-malformed":
            doc, ext = dtd_doc(rng, True)
            doc = malform(rng, doc)
            cfg = dict(val=1, ns=rng.choice([0, 1]), sch=0)
        elif kind in ("xsd-valid", "xsd-invalid"):
            doc, ext = xsd_doc(rng, kind == "xsd-valid")
            cfg = dict(val=rng.choice([1, 2]), ns=1, sch=1, fc=rng.choice([0, 1]))
        else:
            doc, ext = xsd_doc(rng, True)
            doc = malform(rng, doc)
            cfg = dict(val=1, ns=1, sch=1, fc=rng.choice([0, 1]))
        out.append(dict(kind=kind, doc=doc, ext=ext, cfg=cfg))
    return out


# ---------------------------------------------------------------------------------------------------------------
# round-2 additions: DOCTYPE x schema cross product, failing external resources, InputSource / encoding variations
# ---------------------------------------------------------------------------------------------------------------
ROOT_DTD = b'<!ENTITY e1 "entity text"><!ELEMENT root ANY><!ATTLIST root ver CDATA "1">'
COMBO_BODY = ('<item id="x1"><name>nm0</name><code>AB12</code><n>1 2 3</n><u>3.25</u></item>'
              '<item><name>nm1</name></item><refto k="nm0"/>')


def combo_cases():
    """the full cross product {no DOCTYPE, internal subset, external subset} x {no schema, schemaLocation, preloaded schema}
    x {namespaces on/off} x {doSchema on/off} x {validation never/always/auto} x {IG, SG, DG, WF};
    returns list of dict(doc, ext, kv, tag)"""
    out = []
    for dt in ("nodtd", "int", "ext"):
        for sc in ("nosch", "loc", "pre"):
            attrs = ' xmlns:xsi="http://www.w3.org/2001/XMLSchema-instance"'
            if sc == "loc":
                attrs += ' xsi:noNamespaceSchemaLocation="s.xsd"'
            doctype = {"nodtd": "", "int": "<!DOCTYPE root [%s]>" % ROOT_DTD.decode(), "ext": '<!DOCTYPE root SYSTEM "root.dtd">'}[dt]
            body = COMBO_BODY.replace("nm0</name>", "nm0&e1;</name>", 1) if dt != "nodtd" else COMBO_BODY
            doc = ('<?xml version="1.0"?>%s<root%s>%s</root>' % (doctype, attrs, body)).encode()
            ext = {}
            if dt == "ext":
                ext["root.dtd"] = ROOT_DTD
            if sc != "nosch":
                ext["s.xsd"] = XSD.encode()
            for ns in (0, 1):
                for sch in (0, 1):
                    for val in (0, 1, 2):
                        for scn in ("IG", "SG", "DG", "WF"):
                            kv = dict(ns=ns, sch=sch, val=0 if scn == "WF" else val, scn=scn, preload=1 if sc == "pre" else 0)
                            out.append(dict(doc=doc, ext=ext, kv=kv, tag="%s-%s-ns%d-sch%d-v%d-%s" % (dt, sc, ns, sch, val, scn)))
    return out


BAD_RESOURCES = {
    "missing": None,
    "badenc": b'<?xml version="1.0" encoding="x-no-such-charset-42"?><!-- x -->',
    "badver": b'<?xml version="9.9"?><!-- x -->',
    "baddecl": b'<?xml encoding="UTF-8" version="1.0"?><!-- x -->',
    "garbage": b'\xff\xfe\x00<\x00',
    "empty": b"",
    "utf16-odd": b'\xfe\xff\x00<\x00',
    "forced-unsupported": b"<!-- fine, but the resolver forces an encoding that has no transcoder -->",
    "forced-contradicting": b'<?xml version="1.0" encoding="UTF-8"?><!-- resolver says UTF-16 -->',
}


def extfail_cases():
    """documents whose external DTD / parameter entity / general entity (also nested) / schema / schema include / import fails
    to open or fails in its first line; returns list of dict(doc, ext, extenc, kv, tag)"""
    out = []
    for how, content in BAD_RESOURCES.items():
        def res(name, ext, extenc, good=b""):
            if content is not None:
                ext[name] = content if how.startswith(("bad", "garb", "empty", "utf16")) else (good or content)
            if how == "forced-unsupported":
                extenc[name] = "x-no-such-charset-42"
            if how == "forced-contradicting":
                extenc[name] = "UTF-16"
        # 1. external DTD subset
        ext, ee = {}, {}
        res("bad.dtd", ext, ee, b"<!ELEMENT r ANY>")
        out.append(dict(doc=b'<?xml version="1.0"?><!DOCTYPE r SYSTEM "bad.dtd"><r>t</r>', ext=ext, extenc=ee,
                        kv=dict(val=2, ns=1, sch=0), tag="dtd-" + how))
        # 2. external parameter entity in the internal subset
        ext, ee = {}, {}
        res("pe.ent", ext, ee, b"<!ELEMENT r ANY>")
        out.append(dict(doc=b'<?xml version="1.0"?><!DOCTYPE r [<!ENTITY % pe SYSTEM "pe.ent">%pe;<!ELEMENT q EMPTY>]><r>t</r>',
                        ext=ext, extenc=ee, kv=dict(val=1, ns=0, sch=0), tag="pe-" + how))
        # 3. external general entity in content
        ext, ee = {}, {}
        res("ge.xml", ext, ee, b"<q/>text")
        out.append(dict(doc=b'<?xml version="1.0"?><!DOCTYPE r [<!ENTITY ge SYSTEM "ge.xml"><!ELEMENT r ANY><!ELEMENT q EMPTY>]><r>a&ge;b<q/></r>',
                        ext=ext, extenc=ee, kv=dict(val=1, ns=1, sch=0), tag="ge-" + how))
        # 4. nested: a good external entity that refers to the failing one
        ext, ee = {"outer.xml": b"<?xml version='1.0' encoding='UTF-8'?><q/>o&inner;o"}, {}
        res("inner.xml", ext, ee, b"<q/>i")
        out.append(dict(doc=b'<?xml version="1.0"?><!DOCTYPE r [<!ENTITY inner SYSTEM "inner.xml"><!ENTITY outer SYSTEM "outer.xml">'
                            b'<!ELEMENT r ANY><!ELEMENT q EMPTY>]><r>&outer;<q/></r>',
                        ext=ext, extenc=ee, kv=dict(val=0, ns=1, sch=0), tag="nested-" + how))
        # 5. schema named by the instance
        ext, ee = {}, {}
        res("s.xsd", ext, ee, XSD.encode())
        out.append(dict(doc=('<?xml version="1.0"?>' + xsd_instance(__import__("random").Random(7), True)).encode(), ext=ext, extenc=ee,
                        kv=dict(val=1, ns=1, sch=1, fc=1), tag="xsd-" + how))
        # 6. schema include / import of a failing document
        for kind in ("include", "import"):
            ext, ee = {}, {}
            inc = ('<xs:include schemaLocation="inc.xsd"/>' if kind == "include"
                   else '<xs:import namespace="urn:other" schemaLocation="inc.xsd"/>')
            ext["s.xsd"] = XSD.replace('elementFormDefault="qualified">', 'elementFormDefault="qualified">' + inc, 1).encode()
            res("inc.xsd", ext, ee, b'<xs:schema xmlns:xs="http://www.w3.org/2001/XMLSchema" targetNamespace="urn:other"/>'
                if kind == "import" else b'<xs:schema xmlns:xs="http://www.w3.org/2001/XMLSchema"/>')
            out.append(dict(doc=('<?xml version="1.0"?>' + xsd_instance(__import__("random").Random(8), True)).encode(), ext=ext, extenc=ee,
                            kv=dict(val=1, ns=1, sch=1, fc=0), tag="xsd%s-%s" % (kind, how)))
    return out


ENCODINGS = ["", "UTF-8", "ISO-8859-1", "UTF-16", "US-ASCII", "IBM037", "x-no-such-charset-42", "UCS-4", "utf-8"]
SRC_KINDS = {"sax": ["mem", "memadopt", "file", "missing", "w4dom", "w4str"], "sax2": ["mem", "memadopt", "file", "missing", "w4dom", "w4str"],
             "dom": ["mem", "memadopt", "file", "missing", "w4dom", "w4str"], "ls": ["mem", "w4is", "lsstr", "lsuri"]}
SRC_DOCS = [b'<?xml version="1.0" encoding="UTF-8"?><r a="1"><b>caf\xc3\xa9</b><!-- c --></r>',
            b'<r><b>plain ascii, no declaration</b></r>',
            b'<?xml version="1.0" encoding="ISO-8859-1"?><r>\xe9</r>']


# ---------------------------------------------------------------------------------------------------------------
# round-3 additions: error recovery of the reader stack in DTDs, DOM heap growth paths, grammar ownership
# ---------------------------------------------------------------------------------------------------------------
def pe_recovery_docs(rng, nrandom):
    """DTDs whose parameter entities make the reader stack unwind during error recovery.  returns list of dict(doc, ext, tag)"""
    out = []

    def add(tag, doc, ext=None):
        out.append(dict(doc=doc if isinstance(doc, bytes) else doc.encode(), ext=ext or {}, tag=tag))
    X = '<?xml version="1.0"?>'
    # PE whose replacement text closes the internal subset (']' / ']>' / ']><r/>' propagated out of the DOCTYPE)
    for k, close in enumerate(["]", "]>", "]><r/>", " ] ", "<!ELEMENT r ANY>]>", "]]>"]):
        add("pe-closes-subset%d" % k, X + '<!DOCTYPE r [<!ELEMENT q EMPTY><!ENTITY %% close "%s">%%close;<!ELEMENT z EMPTY>]><r/>' % close)
        add("pe2-closes-subset%d" % k, X + '<!DOCTYPE r [<!ENTITY %% c1 "%s"><!ENTITY %% c2 "<!ELEMENT q EMPTY>&#37;c1;">%%c2; ]><r/>' % close)
        add("extpe-closes-subset%d" % k, X + '<!DOCTYPE r [<!ENTITY % x SYSTEM "x.ent">%x;<!ELEMENT z EMPTY>]><r/>',
            {"x.ent": ("<!ELEMENT q EMPTY>%s" % close).encode()})
    # '>' / ']]>' of a conditional section inside a PE (external subset and external PE)
    for k, (sect, end) in enumerate([("INCLUDE", "]]>"), ("IGNORE", "]]>"), ("INCLUDE", "]]"), ("INCLUDE", ">"), ("IGNORE", "]"),
                                     ("%kw;", "]]>")]):
        dtd = '<!ENTITY %% kw "INCLUDE"><!ENTITY %% end "%s"><!ELEMENT r ANY><![%s[<!ELEMENT q EMPTY>%%end;<!ELEMENT z EMPTY>' % (end, sect)
        add("cond-end-in-pe%d" % k, X + '<!DOCTYPE r SYSTEM "c.dtd"><r/>', {"c.dtd": dtd.encode()})
        add("cond-end-in-nested-pe%d" % k, X + '<!DOCTYPE r SYSTEM "c.dtd"><r/>',
            {"c.dtd": ('<!ENTITY %% e1 "%s"><!ENTITY %% end "&#37;e1;"><!ELEMENT r ANY><![INCLUDE[<![%s[<!ELEMENT q EMPTY>%%end;]]>' % (end, "INCLUDE" if "%" in sect else sect)).encode()})
        add("cond-unterminated%d" % k, X + '<!DOCTYPE r [<!ENTITY % x SYSTEM "x.ent">%x;]><r/>',
            {"x.ent": ("<![%s[<!ELEMENT q EMPTY><![INCLUDE[<!ELEMENT z EMPTY>%s" % ("INCLUDE" if "%" in sect else sect, end[:1])).encode()})
    # fatal error inside an internal PE that is referenced from an external PE (and deeper nestings)
    for k, bad in enumerate(["<!ELEMENT r (a,", "<!ATTLIST r x CDATA ", "<!ENTITY bad 'x", "<!-- never closed", "<!ELEMENT r (a|b,c)>", "<?pi never closed",
                             "<!NOTATION n SYSTEM", "%undefined;", "<!ELEMENT 1bad ANY>", "<!ENTITY % p2 '<' > &#37;p2;"]):
        esc = bad.replace('"', "&#34;")
        add("err-in-internal-pe-from-external%d" % k,
            X + '<!DOCTYPE r [<!ENTITY %% inner "%s"><!ENTITY %% outer SYSTEM "outer.ent">%%outer;<!ELEMENT z EMPTY>]><r/>' % esc,
            {"outer.ent": b"<!ELEMENT q EMPTY>%inner;<!ELEMENT w EMPTY>"})
        add("err-in-internal-pe-3deep%d" % k,
            X + '<!DOCTYPE r [<!ENTITY %% inner "%s"><!ENTITY %% mid "<!ELEMENT m EMPTY>&#37;inner;"><!ENTITY %% outer SYSTEM "outer.ent">%%outer;]><r/>' % esc,
            {"outer.ent": b"<!ENTITY % o2 SYSTEM 'o2.ent'>%o2;<!ELEMENT w EMPTY>", "o2.ent": b"<!ELEMENT q EMPTY>%mid;"})
        add("err-in-extsubset-pe%d" % k, X + '<!DOCTYPE r SYSTEM "e.dtd" [<!ELEMENT r ANY>]><r/>',
            {"e.dtd": ('<!ENTITY %% inner "%s"><!ELEMENT q EMPTY>%%inner;<!ELEMENT w EMPTY>' % esc).encode()})
        add("err-in-internal-pe-only%d" % k, X + '<!DOCTYPE r [<!ENTITY %% inner "%s"><!ENTITY %% two "&#37;inner;">%%two;<!ELEMENT z EMPTY>]><r/>' % esc)
    # declarations that start in one PE and end in another / outside (partial markup in PE), general entity text with markup errors
    add("decl-spans-pes", X + '<!DOCTYPE r [<!ENTITY % a "<!ATTLIST r x CDATA "><!ENTITY % b "#IMPLIED>">%a;%b;<!ELEMENT r ANY>]><r/>')
    add("decl-ends-outside-pe", X + '<!DOCTYPE r [<!ENTITY % a "<!ELEMENT r (#PCDATA">%a;)><!ELEMENT z EMPTY>]><r/>')
    add("group-spans-pes", X + '<!DOCTYPE r SYSTEM "g.dtd"><r/>', {"g.dtd": b'<!ENTITY % open "(a, (b"><!ENTITY % cl ")*)"><!ELEMENT r %open;|c%cl;><!ELEMENT a EMPTY>'})
    add("pe-recursion", X + '<!DOCTYPE r [<!ENTITY % a "&#37;b;"><!ENTITY % b "&#37;a;">%a;]><r/>')
    add("extpe-recursion", X + '<!DOCTYPE r [<!ENTITY % a SYSTEM "a.ent">%a;]><r/>', {"a.ent": b"<!ELEMENT q EMPTY>%a;"})
    add("ge-with-unbalanced-markup", X + '<!DOCTYPE r [<!ENTITY g "<a>text"><!ENTITY g2 "&g;</a>"><!ELEMENT r ANY>]><r>&g2;&g;</r>')
    add("extge-ends-in-markup", X + '<!DOCTYPE r [<!ENTITY g SYSTEM "g.xml"><!ELEMENT r ANY>]><r>&g;<q/></r>', {"g.xml": b"<a><b>text</b"})
    # random: cut the reference DTD into nested parameter entities at random places, optionally truncate / damage a piece
    for i in range(nrandom):
        text = DTD_DECLS.replace("%pe;", "").replace('"', "'")
        cuts = sorted(rng.sample(range(1, len(text) - 1), rng.randrange(1, 4)))
        pieces = [text[a:b] for a, b in zip([0] + cuts, cuts + [len(text)])]
        if rng.random() < 0.6:
            j = rng.randrange(len(pieces))
            pieces[j] = rng.choice([pieces[j][:len(pieces[j]) // 2], pieces[j] + "]", pieces[j] + "]>", "<" + pieces[j], pieces[j].replace(">", "", 1)])
        decls, ext = [], {}
        prev = None
        for j, pc in enumerate(reversed(pieces)):
            body = pc.replace("%", "&#37;").replace('"', "&#34;").replace("&e", "&#38;e")
            if prev is not None and rng.random() < 0.5:
                body += "&#37;%s;" % prev                      # nested reference
            name = "p%d" % j
            if rng.random() < 0.3:
                ext["%s.ent" % name] = (pc + ("%%%s;" % prev if prev is not None and body.endswith(";") else "")).encode()
                decls.append('<!ENTITY %% %s SYSTEM "%s.ent">' % (name, name))
            else:
                decls.append('<!ENTITY %% %s "%s">' % (name, body))
            prev = name
        refs = "".join("%%p%d;" % j for j in reversed(range(len(pieces)))) if rng.random() < 0.5 else "%%%s;" % prev
        doc = X + "<!DOCTYPE r [%s%s]>%s" % ("".join(decls), refs, dtd_instance(rng, True))
        add("random-pe-split%d" % i, doc, ext)
    return out


def domheap_docs():
    """documents whose text nodes / attribute values / CDATA are delivered in pieces and grown in place (use with ents=0), including
    text above the scanner's flush size; returns list of dict(doc, ext, tag)"""
    out = []
    ents = '<!ENTITY e "eeeeeeeeee"><!ENTITY big "@@REP(b,3000)@@"><!ENTITY nest "n&e;n&e;n"><!ENTITY x SYSTEM "x.xml">'
    head = '<?xml version="1.0"?><!DOCTYPE r [%s<!ELEMENT r ANY><!ELEMENT t ANY><!ATTLIST t a CDATA #IMPLIED>]>' % ents
    ext = {"x.xml": b"external @@REP(x,500)@@ text"}

    def add(tag, body):
        out.append(dict(doc=(head + "<r>" + body + "</r>").encode(), ext=ext, tag=tag))
    for n in (0, 50, 112, 113, 114, 127, 128, 200, 1000, 70000):
        for reps in (1, 3, 10):
            add("text%d-x%d" % (n, reps), "<t>@@REP(T,%d)@@%s</t>" % (n, "&e;" * reps))
    add("many-growing-nodes", "".join("<t>@@REP(T,%d)@@&e;&big;&e;tail&nest;</t>" % (120 + 37 * i) for i in range(24)))
    add("interleaved-sizes", "".join("<t>@@REP(a,%d)@@&e;@@REP(b,%d)@@&big;&x;</t><t>short&e;</t>" % (300 * (i % 5), 5000 * (i % 3)) for i in range(12)))
    add("text-above-flush-size", "<t>@@REP(M,1100000)@@&e;tail</t><t>@@REP(N,2200000)@@</t><t>after&big;</t>")
    add("several-large-blocks", "".join("<t>@@REP(L,%d)@@&e;&e;</t>" % (300000 + 100000 * i) for i in range(5)) + "<t>small&e;</t>")
    add("attr-values", "".join('<t a="@@REP(A,%d)@@&e;&big;&e;">v</t>' % n for n in (0, 113, 114, 300, 5000, 70000)))
    add("attr-above-flush-size", '<t a="@@REP(A,1100000)@@&e;"/><t a="&big;&big;"/>')
    add("cdata-pieces", "".join("<t>@@REP(c,%d)@@<![CDATA[@@REP(d,%d)@@]]>&e;<![CDATA[x]]>&big;</t>" % (n, n * 2 + 1) for n in (0, 113, 114, 300, 70000)))
    add("cdata-above-flush-size", "<t><![CDATA[@@REP(C,1100000)@@]]>&e;</t>")
    add("charrefs-and-entities", "<t>@@REP(T,200)@@&#65;&#x42;&e;&#67;&big;&amp;&e;&lt;</t>" * 6)
    add("external-entity-in-text", "<t>@@REP(T,200)@@&x;&e;&x;</t>" * 4)
    add("comments-pis-between", "<t>@@REP(T,200)@@&e;<!-- c -->&e;@@REP(U,300)@@<?p d?>&big;</t>" * 4)
    return out


def gramown_cases():
    """grammar ownership cross product: {cacheGrammarFromParse} x {application pool absent/unlocked/locked} x {useCachedGrammarInParse} x
    {external DTD subset, internal subset only, schema} x {document ends normally / fatally}; the handler-exception endings and the
    reuse / second parse / deletion come from the 'case' machinery (mode=reuse and mode=fresh).  returns list of dict(doc, ext, kv, tag)"""
    dtd = b"<!ELEMENT r (a*)><!ELEMENT a (#PCDATA)><!ATTLIST a x CDATA #IMPLIED>"
    docs = {
        "extdtd": (b'<?xml version="1.0"?><!DOCTYPE r SYSTEM "ext.dtd"><r><a x="1">t</a><a>u</a></r>', {"ext.dtd": dtd}, dict(sch=0, ns=1)),
        "extdtd+int": (b'<?xml version="1.0"?><!DOCTYPE r SYSTEM "ext.dtd" [<!ENTITY e "v">]><r><a>&e;</a></r>', {"ext.dtd": dtd}, dict(sch=0, ns=0)),
        "intdtd": (b'<?xml version="1.0"?><!DOCTYPE r [' + dtd + b']><r><a>t</a></r>', {}, dict(sch=0, ns=1)),
        "schema": (('<?xml version="1.0"?>' + xsd_instance(__import__("random").Random(5), True)).encode(), {"s.xsd": XSD.encode()}, dict(sch=1, ns=1)),
        "dtd+schema": (('<?xml version="1.0"?><!DOCTYPE root SYSTEM "root.dtd">' + xsd_instance(__import__("random").Random(6), True)).encode(),
                       {"s.xsd": XSD.encode(), "root.dtd": ROOT_DTD}, dict(sch=1, ns=1)),
    }
    out = []
    for dk, (doc, ext, feat) in docs.items():
        for ending in ("normal", "fatal", "fatal-early"):
            d = doc
            if ending == "fatal":
                d = doc[:-4] + b"<<"                     # damage after the DOCTYPE / in the content
            elif ending == "fatal-early":
                d = doc.replace(b"<?xml version=\"1.0\"?>", b"<?xml version=\"1.0\"?><!-- -- -->", 1)   # fatal before the DOCTYPE
            for cache in (0, 1):
                for usec in (0, 1):
                    for pool in ("none", "open", "locked"):
                        kv = dict(feat)
                        kv.update(cache=cache, usec=usec, pool=0 if pool == "none" else 1, lock=1 if pool == "locked" else 0)
                        out.append(dict(doc=d, ext=ext, kv=kv, tag="%s-%s-c%du%d-%s" % (dk, ending, cache, usec, pool)))
    return out
