"""Document pool for C18 (monitored exploration): well-formed, malformed, DTD-valid/invalid, with entities
(internal, external through the resolver, parameter entities), schema-valid/invalid.  Everything derives from the
rng handed in.  Each item: dict(kind=..., doc=bytes, ext={name: bytes}, cfg={harness settings})."""

NAMES = ["a", "b", "c", "d", "item", "x:e", "n1", "long-element-name", "k"]


def _text(rng):
    pool = ["t", "hello world", "  ", "x&amp;y", "&#65;&#x42;", "1 &lt; 2", "\n  ", "café", "z" * rng.choice([1, 5, 40, 300]),
            "<![CDATA[c<d]]>", "<!-- com -->", "<?pi data?>"]
    return rng.choice(pool)


def _attrs(rng, names):
    out = []
    for n in rng.sample(names, rng.randrange(0, min(3, len(names)) + 1)):
        out.append('%s="%s"' % (n, rng.choice(["1", "v w", "", "a&amp;b", "x" * 30, "&#9;t"])))
    return (" " + " ".join(out)) if out else ""


def wf_tree(rng, depth=0, ns=False):
    name = rng.choice(["a", "b", "c", "d", "item", "k"])
    at = _attrs(rng, ["p", "q", "r"])
    if ns and depth == 0:
        at += ' xmlns:x="urn:x" xmlns="urn:d"'
    if depth > 3 or rng.random() < 0.25:
        if rng.random() < 0.4:
            return "<%s%s/>" % (name, at)
        return "<%s%s>%s</%s>" % (name, at, _text(rng), name)
    kids = "".join(wf_tree(rng, depth + 1, ns) if rng.random() < 0.7 else _text(rng) for _ in range(rng.randrange(1, 5)))
    if ns and rng.random() < 0.3:
        return "<x:%s%s>%s</x:%s>" % (name, at, kids, name)
    return "<%s%s>%s</%s>" % (name, at, kids, name)


def wf_doc(rng):
    ns = rng.random() < 0.4
    decl = rng.choice(['', '<?xml version="1.0"?>', '<?xml version="1.0" encoding="UTF-8"?>', '<?xml version="1.1"?>'])
    body = wf_tree(rng, 0, ns)
    tail = rng.choice(["", "\n", "<!-- end -->", "<?p q?>"])
    return (decl + body + tail).encode("utf-8")


def malform(rng, doc):
    s = bytearray(doc)
    how = rng.randrange(8)
    if how == 0 and len(s) > 4:
        return bytes(s[:rng.randrange(1, len(s))])                 # truncation
    if how == 1 and len(s) > 4:
        i = rng.randrange(len(s)); del s[i]; return bytes(s)       # one byte lost
    if how == 2:
        i = rng.randrange(len(s) + 1); s[i:i] = b"<"; return bytes(s)
    if how == 3:
        i = rng.randrange(len(s) + 1); s[i:i] = b"&nosuch;"; return bytes(s)
    if how == 4:
        return bytes(s).replace(b"</a>", b"</b>", 1) + b""
    if how == 5:
        return bytes(s) + b"<extra/>"                                # second root
    if how == 6:
        i = rng.randrange(len(s) + 1); s[i:i] = bytes([rng.choice([0x00, 0x01, 0xFF, 0xC0, 0x80])]); return bytes(s)
    return bytes(s).replace(b' p="', b' p="1" p="', 1) + (b"" if b' p="' in s else b"</nope>")


DTD_DECLS = """<!ELEMENT r (h?, (a | b)*, c?)>
<!ELEMENT h (#PCDATA)>
<!ELEMENT a (#PCDATA | b)*>
<!ELEMENT b EMPTY>
<!ELEMENT c (a, b+)>
<!ATTLIST r id ID #IMPLIED ver CDATA "1.0">
<!ATTLIST a kind (x|y|z) "x" ref IDREF #IMPLIED toks NMTOKENS #IMPLIED>
<!ATTLIST b id ID #REQUIRED note CDATA #IMPLIED>
<!ENTITY e1 "entity text">
<!ENTITY e2 "<b id='ie2'/>nested &e1;">
<!ENTITY % pe "<!ENTITY e3 'from pe'>">
%pe;
<!NOTATION gif SYSTEM "viewer">
<!ENTITY pic SYSTEM "pic.gif" NDATA gif>
<!ATTLIST h img ENTITY #IMPLIED>
"""


def dtd_instance(rng, valid=True):
    ids = []
    def b():
        i = "i%d" % len(ids); ids.append(i)
        note = ' note="n"' if rng.random() < 0.3 else ""
        return '<b id="%s"%s/>' % (i, note)
    def a():
        kids = "".join(rng.choice(["txt", "&e1;", "&e2;", "&e3;", b(), " "]) for _ in range(rng.randrange(0, 4)))
        at = rng.choice(["", ' kind="y"', ' toks="t1 t2  t3"', ' kind="z" toks="q"'])
        if ids and rng.random() < 0.3:
            at += ' ref="%s"' % rng.choice(ids)
        return "<a%s>%s</a>" % (at, kids)
    body = ""
    if rng.random() < 0.5:
        body += "<h%s>head</h>" % (' img="pic"' if rng.random() < 0.5 else "")
    for _ in range(rng.randrange(0, 5)):
        body += a() if rng.random() < 0.6 else b()
    if rng.random() < 0.4:
        body += "<c>%s%s%s</c>" % (a(), b(), b() if rng.random() < 0.5 else "")
    root_at = rng.choice(["", ' id="root"', ' ver="2"'])
    if not valid:
        how = rng.randrange(6)
        if how == 0: body += "<undeclared/>"
        elif how == 1: body = "<c/>" + body
        elif how == 2: body += '<b/>'
        elif how == 3: body += '<a ref="missing"/>'
        elif how == 4: body += '<b id="i0"/><b id="i0"/>'
        else: body += '<a kind="q"/>'
    return "<r%s>%s</r>" % (root_at, body)


def dtd_doc(rng, valid=True):
    """returns (doc, ext)"""
    inst = dtd_instance(rng, valid)
    where = rng.randrange(3)
    ext = {"pic.gif": b"GIF"}
    if where == 0:
        doc = "<!DOCTYPE r [\n%s]>%s" % (DTD_DECLS, inst)
    elif where == 1:
        doc = '<!DOCTYPE r SYSTEM "ext.dtd">%s' % inst
        ext["ext.dtd"] = DTD_DECLS.encode()
    else:
        doc = '<!DOCTYPE r SYSTEM "ext.dtd" [<!ENTITY ex SYSTEM "ent1.xml"><!ENTITY e1 "override">]>%s' % inst.replace("txt", "&ex;", 1)
        ext["ext.dtd"] = DTD_DECLS.encode()
        ext["ent1.xml"] = rng.choice([b"<?xml version='1.0' encoding='UTF-8'?>external <b id='xe'/> text", b"plain", b"<b id='xe'/>",
                                      b"<unclosed>"])
    if rng.random() < 0.15:
        doc = doc.replace('SYSTEM "ext.dtd"', 'SYSTEM "missing.dtd"')
    return ('<?xml version="1.0"?>' + doc).encode("utf-8"), ext


XSD = """<?xml version="1.0"?>
<xs:schema xmlns:xs="http://www.w3.org/2001/XMLSchema" elementFormDefault="qualified">
 <xs:simpleType name="code"><xs:restriction base="xs:string"><xs:pattern value="[A-Z]{2}[0-9]+"/><xs:maxLength value="8"/></xs:restriction></xs:simpleType>
 <xs:simpleType name="nums"><xs:list itemType="xs:int"/></xs:simpleType>
 <xs:simpleType name="u"><xs:union memberTypes="xs:date xs:decimal"/></xs:simpleType>
 <xs:complexType name="base"><xs:sequence><xs:element name="name" type="xs:string"/></xs:sequence><xs:attribute name="id" type="xs:ID"/></xs:complexType>
 <xs:complexType name="ext"><xs:complexContent><xs:extension base="base"><xs:sequence>
   <xs:element name="code" type="code" minOccurs="0" maxOccurs="3"/>
   <xs:choice minOccurs="0" maxOccurs="unbounded"><xs:element name="n" type="nums"/><xs:element name="u" type="u"/></xs:choice>
 </xs:sequence><xs:attribute name="when" type="xs:dateTime"/><xs:attribute name="q" type="xs:decimal" default="1.5"/></xs:extension></xs:complexContent></xs:complexType>
 <xs:element name="root"><xs:complexType><xs:sequence>
   <xs:element name="item" type="ext" maxOccurs="unbounded"/>
   <xs:element name="refto" minOccurs="0" maxOccurs="unbounded"><xs:complexType><xs:attribute name="k" type="xs:string"/></xs:complexType></xs:element>
   <xs:any namespace="##other" processContents="lax" minOccurs="0"/>
 </xs:sequence></xs:complexType>
  <xs:key name="itemKey"><xs:selector xpath="item"/><xs:field xpath="name"/></xs:key>
  <xs:keyref name="itemRef" refer="itemKey"><xs:selector xpath="refto"/><xs:field xpath="@k"/></xs:keyref>
 </xs:element>
</xs:schema>
"""


def xsd_instance(rng, valid=True):
    items = []
    names = []
    for i in range(rng.randrange(1, 4)):
        nm = "nm%d" % i
        names.append(nm)
        s = "<name>%s</name>" % nm
        for _ in range(rng.randrange(0, 3)):
            s += "<code>%s</code>" % rng.choice(["AB12", "ZZ9", "QQ123456"])
        for _ in range(rng.randrange(0, 3)):
            s += rng.choice(["<n>1 2 3</n>", "<n/>", "<u>2001-01-01</u>", "<u>3.25</u>"])
        at = rng.choice(["", ' id="x%d"' % i, ' when="2001-10-26T21:32:52"', ' q="2.0"'])
        items.append("<item%s>%s</item>" % (at, s))
    refs = "".join('<refto k="%s"/>' % rng.choice(names) for _ in range(rng.randrange(0, 3)))
    other = '<o:x xmlns:o="urn:other"><o:y/></o:x>' if rng.random() < 0.3 else ""
    if not valid:
        how = rng.randrange(6)
        if how == 0: items.append("<item><name>a</name><code>bad</code></item>")
        elif how == 1: items.append("<item><code>AB1</code></item>")
        elif how == 2: refs += '<refto k="nokey"/>'
        elif how == 3: items.append("<item><name>nm0</name></item>")
        elif how == 4: items.append('<item when="yesterday"><name>w</name><n>1 x</n></item>')
        else: items.append("<item><name>a</name><zzz/></item>")
    return ('<root xmlns:xsi="http://www.w3.org/2001/XMLSchema-instance" xsi:noNamespaceSchemaLocation="s.xsd">%s%s%s</root>'
            % ("".join(items), refs, other))


def xsd_doc(rng, valid=True):
    ext = {"s.xsd": XSD.encode()}
    if rng.random() < 0.1:
        ext = {"s.xsd": XSD.replace("</xs:schema>", "<xs:element name='dup' type='nosuch'/></xs:schema>").encode()}
    if rng.random() < 0.07:
        ext = {"s.xsd": XSD[:len(XSD) // 2].encode()}
    return ('<?xml version="1.0"?>' + xsd_instance(rng, valid)).encode("utf-8"), ext


def pool(rng, n):
    """n documents, mixed kinds; deterministic in rng"""
    out = []
    kinds = ["wf", "wf", "malformed", "malformed", "dtd-valid", "dtd-valid", "dtd-invalid", "dtd-malformed",
             "xsd-valid", "xsd-invalid", "xsd-malformed", "entities"]
    for i in range(n):
        kind = kinds[i % len(kinds)]
        ext = {}
        cfg = {}
        if kind == "wf":
            doc = wf_doc(rng)
            cfg = dict(val=rng.choice([0, 0, 2]), ns=rng.choice([0, 1]), sch=0)
        elif kind == "malformed":
            doc = malform(rng, wf_doc(rng))
            cfg = dict(val=rng.choice([0, 2]), ns=rng.choice([0, 1]), sch=rng.choice([0, 1]))
        elif kind in ("dtd-valid", "dtd-invalid", "entities"):
            doc, ext = dtd_doc(rng, kind != "dtd-invalid")
            cfg = dict(val=rng.choice([1, 1, 2, 0]), ns=rng.choice([0, 1]), sch=0)
            if kind == "entities":
                cfg["ents"] = rng.choice([0, 1])
        elif kind == "dtd-malformed":
            doc, ext = dtd_doc(rng, True)
            doc = malform(rng, doc)
            cfg = dict(val=1, ns=rng.choice([0, 1]), sch=0)
        elif kind in ("xsd-valid", "xsd-invalid"):
            doc, ext = xsd_doc(rng, kind == "xsd-valid")
            cfg = dict(val=rng.choice([1, 2]), ns=1, sch=1, fc=rng.choice([0, 1]))
        else:
            doc, ext = xsd_doc(rng, True)
            doc = malform(rng, doc)
            cfg = dict(val=1, ns=1, sch=1, fc=rng.choice([0, 1]))
        out.append(dict(kind=kind, doc=doc, ext=ext, cfg=cfg))
    return out


# ---------------------------------------------------------------------------------------------------------------
# round-2 additions: DOCTYPE x schema cross product, failing external resources, InputSource / encoding variations
# ---------------------------------------------------------------------------------------------------------------
ROOT_DTD = b'<!ENTITY e1 "entity text"><!ELEMENT root ANY><!ATTLIST root ver CDATA "1">'
COMBO_BODY = ('<item id="x1"><name>nm0</name><code>AB12</code><n>1 2 3</n><u>3.25</u></item>'
              '<item><name>nm1</name></item><refto k="nm0"/>')


def combo_cases():
    """the full cross product {no DOCTYPE, internal subset, external subset} x {no schema, schemaLocation, preloaded schema}
    x {namespaces on/off} x {doSchema on/off} x {validation never/always/auto} x {IG, SG, DG, WF};
    returns list of dict(doc, ext, kv, tag)"""
    out = []
    for dt in ("nodtd", "int", "ext"):
        for sc in ("nosch", "loc", "pre"):
            attrs = ' xmlns:xsi="http://www.w3.org/2001/XMLSchema-instance"'
            if sc == "loc":
                attrs += ' xsi:noNamespaceSchemaLocation="s.xsd"'
            doctype = {"nodtd": "", "int": "<!DOCTYPE root [%s]>" % ROOT_DTD.decode(), "ext": '<!DOCTYPE root SYSTEM "root.dtd">'}[dt]
            body = COMBO_BODY.replace("nm0</name>", "nm0&e1;</name>", 1) if dt != "nodtd" else COMBO_BODY
            doc = ('<?xml version="1.0"?>%s<root%s>%s</root>' % (doctype, attrs, body)).encode()
            ext = {}
            if dt == "ext":
                ext["root.dtd"] = ROOT_DTD
            if sc != "nosch":
                ext["s.xsd"] = XSD.encode()
            for ns in (0, 1):
                for sch in (0, 1):
                    for val in (0, 1, 2):
                        for scn in ("IG", "SG", "DG", "WF"):
                            kv = dict(ns=ns, sch=sch, val=0 if scn == "WF" else val, scn=scn, preload=1 if sc == "pre" else 0)
                            out.append(dict(doc=doc, ext=ext, kv=kv, tag="%s-%s-ns%d-sch%d-v%d-%s" % (dt, sc, ns, sch, val, scn)))
    return out


BAD_RESOURCES = {
    "missing": None,
    "badenc": b'<?xml version="1.0" encoding="x-no-such-charset-42"?><!-- x -->',
    "badver": b'<?xml version="9.9"?><!-- x -->',
    "baddecl": b'<?xml encoding="UTF-8" version="1.0"?><!-- x -->',
    "garbage": b'\xff\xfe\x00<\x00',
    "empty": b"",
    "utf16-odd": b'\xfe\xff\x00<\x00',
    "forced-unsupported": b"<!-- fine, but the resolver forces an encoding that has no transcoder -->",
    "forced-contradicting": b'<?xml version="1.0" encoding="UTF-8"?><!-- resolver says UTF-16 -->',
}


def extfail_cases():
    """documents whose external DTD / parameter entity / general entity (also nested) / schema / schema include / import fails
    to open or fails in its first line; returns list of dict(doc, ext, extenc, kv, tag)"""
    out = []
    for how, content in BAD_RESOURCES.items():
        def res(name, ext, extenc, good=b""):
            if content is not None:
                ext[name] = content if how.startswith(("bad", "garb", "empty", "utf16")) else (good or content)
            if how == "forced-unsupported":
                extenc[name] = "x-no-such-charset-42"
            if how == "forced-contradicting":
                extenc[name] = "UTF-16"
        # 1. external DTD subset
        ext, ee = {}, {}
        res("bad.dtd", ext, ee, b"<!ELEMENT r ANY>")
        out.append(dict(doc=b'<?xml version="1.0"?><!DOCTYPE r SYSTEM "bad.dtd"><r>t</r>', ext=ext, extenc=ee,
                        kv=dict(val=2, ns=1, sch=0), tag="dtd-" + how))
        # 2. external parameter entity in the internal subset
        ext, ee = {}, {}
        res("pe.ent", ext, ee, b"<!ELEMENT r ANY>")
        out.append(dict(doc=b'<?xml version="1.0"?><!DOCTYPE r [<!ENTITY % pe SYSTEM "pe.ent">%pe;<!ELEMENT q EMPTY>]><r>t</r>',
                        ext=ext, extenc=ee, kv=dict(val=1, ns=0, sch=0), tag="pe-" + how))
        # 3. external general entity in content
        ext, ee = {}, {}
        res("ge.xml", ext, ee, b"<q/>text")
        out.append(dict(doc=b'<?xml version="1.0"?><!DOCTYPE r [<!ENTITY ge SYSTEM "ge.xml"><!ELEMENT r ANY><!ELEMENT q EMPTY>]><r>a&ge;b<q/></r>',
                        ext=ext, extenc=ee, kv=dict(val=1, ns=1, sch=0), tag="ge-" + how))
        # 4. nested: a good external entity that refers to the failing one
        ext, ee = {"outer.xml": b"<?xml version='1.0' encoding='UTF-8'?><q/>o&inner;o"}, {}
        res("inner.xml", ext, ee, b"<q/>i")
        out.append(dict(doc=b'<?xml version="1.0"?><!DOCTYPE r [<!ENTITY inner SYSTEM "inner.xml"><!ENTITY outer SYSTEM "outer.xml">'
                            b'<!ELEMENT r ANY><!ELEMENT q EMPTY>]><r>&outer;<q/></r>',
                        ext=ext, extenc=ee, kv=dict(val=0, ns=1, sch=0), tag="nested-" + how))
        # 5. schema named by the instance
        ext, ee = {}, {}
        res("s.xsd", ext, ee, XSD.encode())
        out.append(dict(doc=('<?xml version="1.0"?>' + xsd_instance(__import__("random").Random(7), True)).encode(), ext=ext, extenc=ee,
                        kv=dict(val=1, ns=1, sch=1, fc=1), tag="xsd-" + how))
        # 6. schema include / import of a failing document
        for kind in ("include", "import"):
            ext, ee = {}, {}
            inc = ('<xs:include schemaLocation="inc.xsd"/>' if kind == "include"
                   else '<xs:import namespace="urn:other" schemaLocation="inc.xsd"/>')
            ext["s.xsd"] = XSD.replace('elementFormDefault="qualified">', 'elementFormDefault="qualified">' + inc, 1).encode()
            res("inc.xsd", ext, ee, b'<xs:schema xmlns:xs="http://www.w3.org/2001/XMLSchema" targetNamespace="urn:other"/>'
                if kind == "import" else b'<xs:schema xmlns:xs="http://www.w3.org/2001/XMLSchema"/>')
            out.append(dict(doc=('<?xml version="1.0"?>' + xsd_instance(__import__("random").Random(8), True)).encode(), ext=ext, extenc=ee,
                            kv=dict(val=1, ns=1, sch=1, fc=0), tag="xsd%s-%s" % (kind, how)))
    return out


ENCODINGS = ["", "UTF-8", "ISO-8859-1", "UTF-16", "US-ASCII", "IBM037", "x-no-such-charset-42", "UCS-4", "utf-8"]
SRC_KINDS = {"sax": ["mem", "memadopt", "file", "missing", "w4dom", "w4str"], "sax2": ["mem", "memadopt", "file", "missing", "w4dom", "w4str"],
             "dom": ["mem", "memadopt", "file", "missing", "w4dom", "w4str"], "ls": ["mem", "w4is", "lsstr", "lsuri"]}
SRC_DOCS = [b'<?xml version="1.0" encoding="UTF-8"?><r a="1"><b>caf\xc3\xa9</b><!-- c --></r>',
            b'<r><b>plain ascii, no declaration</b></r>',
            b'<?xml version="1.0" encoding="ISO-8859-1"?><r>\xe9</r>']
