"""C10 generators and renderer: abstract (schema with identity constraints, instance) cases.

A case is a dict
  ltypes : list of type chars for the leaf element names l0..   (s string, t token, i integer, d decimal, D date, q QName)
  lnil   : list of bools (leaf element declared nillable)
  atypes : list of type chars for the attribute names t0..
  nc     : number of container element names c0..
  ics    : list of dict(elem=<container idx>, kind='u'|'k'|'r', id=<n>, refer=<n or None>, sel=<xpath text>,
                        fields=[<xpath text>...])
  tree   : node;  node = ['c', idx, {attr idx: lexical}, [kids]]  |  ['l', idx, {attr idx: lexical}, text-or-None(nil)]
The abstract token form (read by the extracted model) and the XSD / XML text (read by the real library) are both
produced here from the same dict; this renderer is part of the trusted base of the correspondence."""

XS = "http://www.w3.org/2001/XMLSchema"
TYPE_NAME = {"s": "xs:string", "t": "xs:token", "i": "xs:integer", "d": "xs:decimal", "D": "xs:date", "q": "xs:QName",
             # further members of the three families, at various derivation depths (built-in and user restrictions)
             "N": "xs:normalizedString", "C": "xs:NCName", "T": "myToken",
             "E": "myDecimal", "I": "myInteger", "l": "xs:long", "n": "xs:int", "J": "myInt", "h": "xs:short", "b": "xs:byte",
             "u": "xs:nonNegativeInteger", "A": "myDate",
             # declared types whose instances usually carry an xsi:type of a type with another value space
             "y": "xs:anySimpleType"}
ATTR_NS = "urn:attr"
PARENT = {"y": None, "s": "y", "N": "s", "t": "N", "C": "t", "T": "t",
          "d": "y", "E": "d", "i": "d", "I": "i", "l": "i", "n": "l", "J": "n", "h": "n", "b": "h", "u": "i",
          "D": "y", "A": "D", "q": None}
USER_TYPES = {"myToken": "xs:token", "myDecimal": "xs:decimal", "myInteger": "xs:integer", "myInt": "xs:int", "myDate": "xs:date"}
FAMILIES = {"dec": "dEiIlnJhbu", "str": "sNtCT", "date": "DA"}


def ancestors(t):
    out = []
    while t is not None:
        out.append(t)
        t = PARENT[t]
    return out


def derived_types(t):
    """types properly derived from t (candidates for xsi:type on an element declared with type t)"""
    return [x for x in PARENT if x != t and t in ancestors(x)]

NSDECL = 'xmlns:p="urn:one" xmlns:q="urn:one" xmlns:r="urn:two"'

POOL = {
    # groups of lexically different but equal values; different groups are different values
    "i": [["1", "+1", "01", "001"], ["2", "+2", "02"], ["0", "-0", "+0", "00"], ["10", "010", "+10"], ["-5", "-05"],
          ["3"], ["4"], ["12345678901234567890", "+12345678901234567890"]],
    "d": [["1.0", "1.00", "1", "+1.0", "01.0", "1."], ["2.5", "2.50", "+2.5", "02.5"], ["0.0", "-0.0", "0", "+0", ".0"],
          [".5", "0.5", "0.50", "+.5"], ["-1.5", "-1.50", "-01.5"], ["10", "10.0", "10.00"], ["3.25"], ["2"]],
    "s": [["a"], ["b"], ["A"], [" a"], ["a b"], ["a  b"], ["1"], ["1.0"], ["c"], ["d"], ["x<y"], ["a&b"], ["A 1"]],
    "t": [["a", " a", "a ", "  a  "], ["b", " b"], ["a b", "a  b", " a   b "], ["A"], ["1"], ["1.0"], ["c"], ["d"]],
    "D": [["2001-01-01"], ["2001-01-02"], ["2001-01-01Z", "2001-01-01+00:00", "2001-01-01-00:00"],
          ["2001-01-02Z", "2001-01-02+00:00"], ["1999-12-31"], ["2004-02-29"]],
    "q": [["p:a", "q:a"], ["r:a"], ["a"], ["p:b", "q:b"], ["r:b"], ["b"]],
}
_SMALL_INT = [["1", "+1", "01", "001"], ["2", "+2", "02"], ["0", "-0", "+0", "00"], ["10", "010", "+10"], ["-5", "-05"], ["3"], ["4"]]
for _t in "lnJhb":
    POOL[_t] = _SMALL_INT
POOL["I"] = POOL["i"]
POOL["u"] = [["1", "+1", "01", "001"], ["2", "+2", "02"], ["0", "+0", "00"], ["10", "010", "+10"], ["3"], ["4"], ["7", "07"]]
POOL["E"] = POOL["d"]
POOL["N"] = POOL["s"]
POOL["T"] = POOL["t"]
POOL["C"] = [["a", " a", "a ", "  a  "], ["b", " b"], ["A"], ["c"], ["d"], ["e", " e "]]
POOL["A"] = POOL["D"]
POOL["y"] = [["1"], ["+1"], ["01"], ["a"], [" a"], ["2001-01-01Z"], ["2001-01-01+00:00"], ["1.0"]]


def hexs(s):
    return "-" if s == "" else "".join("%02X" % ord(c) for c in s)


def esc(s):
    return s.replace("&", "&amp;").replace("<", "&lt;").replace('"', "&quot;")


# ---------------------------------------------------------------------------------------------------------------
ATTR_NS2 = "urn:other"


def attr_qname(i):
    """attribute index -> name in instance documents and XPaths: t0..t2 unqualified, 3..5 t:g0.. (namespace urn:attr),
    6..7 o:h0.. (namespace urn:other)"""
    return "t%d" % i if i < 3 else ("t:g%d" % (i - 3) if i < 6 else "o:h%d" % (i - 6))


def leaf_qname(i):
    """leaf element index -> name: l0..l2 in no namespace, 3 = t:m0 (urn:attr), 4 = o:m1 (urn:other)"""
    return "l%d" % i if i < 3 else ("t:m0" if i == 3 else "o:m%d" % (i - 3))


def render_import_xsd(case, which=0):
    """the schema of the namespace urn:attr (which=0) / urn:other (which=1): global attribute declarations and one global
    simple-typed element (None when the case has none)"""
    if len(case["atypes"]) <= 3:
        return None
    ns = (ATTR_NS, ATTR_NS2)[which]
    o = ['<?xml version="1.0"?>\n<xs:schema xmlns:xs="%s" xmlns:ta="%s" targetNamespace="%s" %s>\n' % (XS, ns, ns, NSDECL)]
    for un, ub in sorted(USER_TYPES.items()):
        o.append('<xs:simpleType name="%s"><xs:restriction base="%s"/></xs:simpleType>\n' % ("a" + un, ub))

    def tn(t):
        x = TYPE_NAME[t]
        return x if x.startswith("xs:") else "ta:a" + x
    if which == 0:
        for i, t in enumerate(case["atypes"][3:6]):
            o.append('<xs:attribute name="g%d" type="%s"/>\n' % (i, tn(t)))
        if len(case["ltypes"]) > 3:
            o.append('<xs:element name="m0" type="%s"/>\n' % tn(case["ltypes"][3]))
    else:
        for i, t in enumerate(case["atypes"][6:]):
            o.append('<xs:attribute name="h%d" type="%s"/>\n' % (i, tn(t)))
        for i in range(4, len(case["ltypes"])):
            o.append('<xs:element name="m%d" type="%s"/>\n' % (i - 3, tn(case["ltypes"][i])))
    o.append('</xs:schema>\n')
    return "".join(o)


def xp_text(x):
    """XPath as written in the schema document ('~' stands for a blank in the request tokens)"""
    return x.replace("~", " ")


def canon_xpath(x):
    """abbreviated form without white space (used by the class predicates of the check only)"""
    return x.replace("~", "").replace("attribute::", "@").replace("child::", "")


def render_xsd(case):
    nl, na, nc = len(case["ltypes"]), len(case["atypes"]), case["nc"]
    qual = na > 3
    o = ['<?xml version="1.0"?>\n<xs:schema xmlns:xs="%s" %s%s>\n'
         % (XS, NSDECL, ' xmlns:t="%s" xmlns:o="%s"' % (ATTR_NS, ATTR_NS2) if qual else "")]
    if qual:
        o.append('<xs:import namespace="%s" schemaLocation="@@A@@"/>\n' % ATTR_NS)
        o.append('<xs:import namespace="%s" schemaLocation="@@B@@"/>\n' % ATTR_NS2)
    for un, ub in sorted(USER_TYPES.items()):
        o.append('<xs:simpleType name="%s"><xs:restriction base="%s"/></xs:simpleType>\n' % (un, ub))
    attrs = "".join('<xs:attribute name="t%d" type="%s"/>' % (i, TYPE_NAME[t]) for i, t in enumerate(case["atypes"][:3]))
    attrs += "".join('<xs:attribute ref="%s"/>' % attr_qname(i) for i in range(3, na))
    o.append('<xs:complexType name="CT"><xs:choice minOccurs="0" maxOccurs="unbounded">')
    for i in range(nc):
        o.append('<xs:element ref="c%d"/>' % i)
    for i in range(nl):
        o.append('<xs:element ref="%s"/>' % leaf_qname(i))
    o.append('</xs:choice>%s</xs:complexType>\n' % attrs)
    for i in range(nc):
        o.append('<xs:element name="c%d" type="CT">' % i)
        for ic in case["ics"]:
            if ic["elem"] != i:
                continue
            tag = {"u": "unique", "k": "key", "r": "keyref"}[ic["kind"]]
            ref = ' refer="ic%d"' % ic["refer"] if ic["kind"] == "r" else ""
            o.append('<xs:%s name="ic%d"%s><xs:selector xpath="%s"/>' % (tag, ic["id"], ref, esc(xp_text(ic["sel"]))))
            for f in ic["fields"]:
                o.append('<xs:field xpath="%s"/>' % esc(xp_text(f)))
            o.append('</xs:%s>' % tag)
        o.append('</xs:element>\n')
    for i in range(min(nl, 3)):
        nil = ' nillable="true"' if case["lnil"][i] else ""
        if case.get("lplain") and case["lplain"][i]:      # plain simple-typed element (xsi:type to a derived simple type allowed)
            o.append('<xs:element name="l%d"%s type="%s"/>\n' % (i, nil, TYPE_NAME[case["ltypes"][i]]))
            continue
        o.append('<xs:element name="l%d"%s><xs:complexType><xs:simpleContent><xs:extension base="%s">%s'
                 '</xs:extension></xs:simpleContent></xs:complexType></xs:element>\n'
                 % (i, nil, TYPE_NAME[case["ltypes"][i]], attrs))
    o.append('</xs:schema>\n')
    return "".join(o)


def render_xml(case):
    o = ['<?xml version="1.0"?>\n']
    ents = case.get("entities") or {}
    if ents:
        o.append("<!DOCTYPE c0 [\n")
        for n in sorted(ents):
            o.append('<!ENTITY %s "%s">\n' % (n, ents[n].replace("&", "&#38;#38;").replace("<", "&#38;#60;").replace('"', "&#34;").replace("%", "&#37;")))
        o.append("]>\n")

    def go(n, root):
        kind, idx, attrs, body = n[:4]
        name = "c%d" % idx if kind == "c" else leaf_qname(idx)
        o.append("<" + name)
        if len(n) > 4 and n[4]:
            o.append(' xsi:type="%s"' % TYPE_NAME[n[4]])
        if root:
            o.append(' xmlns:xsi="http://www.w3.org/2001/XMLSchema-instance" xmlns:xs="%s" %s%s @@L@@'
                     % (XS, NSDECL, ' xmlns:t="%s" xmlns:o="%s"' % (ATTR_NS, ATTR_NS2) if len(case["atypes"]) > 3 else ""))
        for a in sorted(attrs):
            o.append(' %s="%s"' % (attr_qname(a), esc(attrs[a])))
        if kind == "l":
            if body is None:
                o.append(' xsi:nil="true"/>')
            else:
                # n[5]: the same character data in another spelling (CDATA sections, character / entity references,
                # comments and processing instructions in between)
                frag = n[5] if len(n) > 5 and n[5] is not None else esc(body)
                o.append(">%s</%s>" % (frag, name))
        else:
            if not body:
                o.append("/>")
            else:
                o.append(">")
                for k in body:
                    go(k, False)
                o.append("</%s>" % name)

    go(case["tree"], True)
    o.append("\n")
    return "".join(o)


def spell_text(rng, case, text):
    """an XML fragment whose character data is `text`, spelled with CDATA sections, character references, internal
    entity references, and comments / processing instructions between the pieces"""
    if text == "":
        return ""
    # cut the text into 1..3 pieces
    cuts = sorted(set(rng.randrange(1, len(text)) for _ in range(rng.choice([0, 1, 1, 2])))) if len(text) > 1 else []
    pieces = [text[a:b] for a, b in zip([0] + cuts, cuts + [len(text)])]
    out = []
    allow_ent = case.get("_entities_ok", True)
    for k, pc in enumerate(pieces):
        if k > 0 and rng.random() < 0.5:
            out.append(rng.choice(["<!--c-->", "<?pi x?>", "<!-- a b -->", "<![CDATA[]]>"]))
        r = rng.random()
        if r < 0.3 and "]]>" not in pc:
            out.append("<![CDATA[%s]]>" % pc)
        elif r < 0.55:
            out.append("".join(("&#x%X;" % ord(c)) if rng.random() < 0.6 else (("&#%d;" % ord(c)) if rng.random() < 0.5 else esc(c))
                               for c in pc))
        elif r < 0.75 and allow_ent:
            ents = case.setdefault("entities", {})
            name = None
            for en, ev in ents.items():
                if ev == pc:
                    name = en
            if name is None:
                name = "e%d" % len(ents)
                ents[name] = pc
            out.append("&%s;" % name)
        else:
            out.append(esc(pc))
    return "".join(out)


def render_abstract(case):
    t = ["LT=" + "".join(case["ltypes"]), "LN=" + "".join("1" if b else "0" for b in case["lnil"]),
         "AT=" + "".join(case["atypes"])]
    for ic in case["ics"]:
        t += ["IC", str(ic["elem"]), ic["kind"], str(ic["id"]), "-" if ic["refer"] is None else str(ic["refer"]),
              ic["sel"], str(len(ic["fields"]))] + list(ic["fields"])
    t.append("TREE")

    def go(n):
        kind, idx, attrs, body = n[:4]
        t.append("(%s%d" % (kind, idx))
        if len(n) > 4 and n[4]:
            t.append("~" + n[4])
        for a in sorted(attrs):
            t.append("@%d=%s" % (a, hexs(attrs[a])))
        if kind == "l":
            t.append("!" if body is None else "=" + hexs(body))
        else:
            for k in body:
                go(k)
        t.append(")")

    go(case["tree"])
    return " ".join(t)


def request(case, scheme="always", scanner="ig", load="pool"):
    """scanner may carry the flag "+p" (a no-op PSVIHandler is installed)"""
    xsd = hexs(render_xsd(case))
    for which in (0, 1):
        imp = render_import_xsd(case, which)
        if imp is not None:
            xsd += ":" + hexs(imp)
    return "ic %s %s %s %s %s %s" % (scheme, scanner, load, xsd, hexs(render_xml(case)), render_abstract(case))


# ---------------------------------------------------------------------------------------------------------------
# generators
# ---------------------------------------------------------------------------------------------------------------
def pick_value(rng, ty, dup_bias=0.5, small=3):
    """a lexical of type ty; values are drawn from the first `small` groups with probability dup_bias"""
    groups = POOL[ty]
    g = groups[rng.randrange(min(small, len(groups)))] if rng.random() < dup_bias else rng.choice(groups)
    return rng.choice(g)


def gen_path(rng, case, field, allow_desc=True, maxsteps=3):
    """one location path of the supported subset"""
    nl, na, nc = len(case["ltypes"]), len(case["atypes"]), case["nc"]
    desc = allow_desc and rng.random() < 0.3
    nsteps = rng.choice([1, 1, 1, 2, 2, 3][:2 * maxsteps])
    steps = []
    if field:
        r = rng.random()
        if r < 0.45:          # attribute field, possibly under child steps
            nsteps = rng.choice([0, 0, 0, 1])
            for _ in range(nsteps):
                steps.append(rng.choice(["c%d" % rng.randrange(nc), "l%d" % rng.randrange(nl), "*"]))
            steps.append("@" + attr_qname(rng.randrange(na)) if rng.random() < 0.9 else "@*")
            if desc and nsteps == 0:
                desc = False
        elif r < 0.5:
            return "."
        else:
            nsteps = rng.choice([1, 1, 1, 2])
            for k in range(nsteps):
                last = k == nsteps - 1
                if last:
                    steps.append("l%d" % rng.randrange(nl) if rng.random() < 0.85 else "*")
                else:
                    steps.append(rng.choice(["c%d" % rng.randrange(nc), "*"]))
    else:
        for k in range(nsteps):
            r = rng.random()
            steps.append("*" if r < 0.15 else ("l%d" % rng.randrange(nl) if r < 0.3 else "c%d" % rng.randrange(nc)))
    return (".//" if desc else "") + "/".join(steps)


def gen_xpath(rng, case, field, allow_desc=True):
    n = 1 if rng.random() < 0.8 else 2
    return "|".join(gen_path(rng, case, field, allow_desc) for _ in range(n))


def distinct_fields(rng, case, nf, allow_desc):
    for _ in range(50):
        out = [gen_xpath(rng, case, True, allow_desc) for _ in range(nf)]
        if len(set(out)) == len(out):
            return out
    return ["@t0", "@t1", "@t2"][:nf]


def gen_case(rng, size=12, allow_desc=True, n_ics=None):
    nl, na, nc = 3, 3, 3
    tys = "stidDq"
    case = {"ltypes": [rng.choice(tys) for _ in range(nl)], "lnil": [rng.random() < 0.1 for _ in range(nl)],
            "atypes": [rng.choice(tys) for _ in range(na)], "nc": nc, "ics": []}
    n_ics = n_ics if n_ics is not None else rng.choice([1, 1, 2, 2, 3])
    nid = 0
    keys = []
    for _ in range(n_ics):
        elem = rng.choice([0, 0, 0, 1, 2])
        kind = rng.choice("ukk")
        nf = rng.choice([1, 1, 1, 2, 2, 3])
        ic = {"elem": elem, "kind": kind, "id": nid, "refer": None, "sel": gen_xpath(rng, case, False, allow_desc),
              "fields": distinct_fields(rng, case, nf, allow_desc)}
        case["ics"].append(ic)
        keys.append(ic)
        nid += 1
        if rng.random() < 0.6:     # a keyref to it, same number of fields, on the same element (or on an ancestor: c0)
            relem = elem if rng.random() < 0.8 else 0
            r = {"elem": relem, "kind": "r", "id": nid, "refer": ic["id"], "sel": gen_xpath(rng, case, False, allow_desc),
                 "fields": distinct_fields(rng, case, nf, allow_desc)}
            # keyref before or after its key in the declaration order
            if rng.random() < 0.5:
                case["ics"].append(r)
            else:
                case["ics"].insert(len(case["ics"]) - 1, r)
            nid += 1
    case["tree"] = gen_tree(rng, case, size)
    return case


def gen_attrs(rng, case, p=0.5):
    out = {}
    for a, ty in enumerate(case["atypes"]):
        if rng.random() < p:
            out[a] = pick_value(rng, ty)
    return out


def gen_tree(rng, case, size):
    nl, nc = len(case["ltypes"]), case["nc"]
    budget = [size]

    def node(depth, root=False):
        budget[0] -= 1
        if not root and (depth > 4 or rng.random() < 0.45):
            i = rng.randrange(nl)
            if case["lnil"][i] and rng.random() < 0.3:
                return ["l", i, gen_attrs(rng, case, 0.4), None]
            return ["l", i, gen_attrs(rng, case, 0.4), pick_value(rng, case["ltypes"][i])]
        i = 0 if root else rng.randrange(nc)
        kids = []
        n = rng.randrange(0, 6) if not root else rng.randrange(2, 7)
        for _ in range(n):
            if budget[0] <= 0:
                break
            kids.append(node(depth + 1))
        return ["c", i, gen_attrs(rng, case, 0.5), kids]

    return node(0, True)


# ---------------------------------------------------------------------------------------------------------------
# structured generator: record-like instances and constraints aimed at them
# ---------------------------------------------------------------------------------------------------------------
def gen_record_tree(rng, case, size):
    nl, nc = len(case["ltypes"]), case["nc"]
    budget = [size]

    def leaf(i):
        budget[0] -= 1
        ty = case["ltypes"][i]
        plain = bool(case.get("lplain")) and case["lplain"][i]
        if case["lnil"][i] and rng.random() < 0.3:
            return ["l", i, {} if plain else gen_attrs(rng, case, 0.3), None]
        der = derived_types(ty)
        if case.get("_xsipool"):
            der = [x for x in der if x in case["_xsipool"]]
        if plain and der and rng.random() < case.get("_xsitype", 0.0):
            ov = rng.choice(der)                      # xsi:type: a type derived from the declared one
            v = pick_value(rng, ov)
            return ["l", i, {}, v, ov, spell_text(rng, case, v) if rng.random() < case.get("_spell", 0.0) else None]
        v = pick_value(rng, ty)
        return ["l", i, {} if plain else gen_attrs(rng, case, 0.3), v, None,
                spell_text(rng, case, v) if rng.random() < case.get("_spell", 0.0) else None]

    def cont(i, depth):
        budget[0] -= 1
        kids = []
        for j in range(nl):
            r = rng.random()
            n = 0 if r < 0.15 else (1 if r < 0.92 else 2)
            kids += [leaf(j) for _ in range(n)]
        nsub = 0 if depth >= 3 else rng.choice([0, 0, 1, 2, 3, 4] if depth == 0 else [0, 0, 0, 1, 2, 3])
        if depth == 0:
            nsub = max(nsub, 2)
        for _ in range(nsub):
            if budget[0] <= 0:
                break
            kids.append(cont(rng.choice([1, 1, 1, 2, 2, 0] if case.get("_nest") else [1, 1, 1, 2, 2]), depth + 1))
        rng.shuffle(kids)
        return ["c", i, gen_attrs(rng, case, 0.8), kids]

    return cont(0, 0)


SELECTORS = ["c1", "c1", "c1", "c2", "*", "c2/c1", "c1/c1", "*/c1", "c1|c2", "c2/*", ".//c1", ".//c1", ".//c2", ".//c1/c1",
             ".//c1/c1/c1", ".//c2/c1", ".//*", "c1/l0", "c1/l1", ".//l0", ".//c1/l2", "c1|c2/c1", ".//c1|c2", "*/*", ".//c1/*/c1"]


def gen_fields(rng, nf, leafsel, na=3):
    """nf pairwise different field xpaths"""
    for _ in range(50):
        out = gen_fields1(rng, nf, leafsel, na)
        if len(set(out)) == len(out):
            return out
    return ["@t0", "@t1", "@t2"][:nf]


def gen_fields1(rng, nf, leafsel, na=3):
    qual = na > 3

    def at():
        # namespace-qualified attributes and namespace wildcards are preferred when the case has them
        if qual and rng.random() < 0.25:
            return "@" + rng.choice(["t:*", "t:*", "o:*", "p:*"])
        i = rng.randrange(3, na) if (qual and rng.random() < 0.6) else rng.randrange(3)
        return "@" + attr_qname(i)

    def lf():
        if qual and rng.random() < 0.35:
            return rng.choice(["t:m0", "o:m1", "t:*", "o:*", "t:*", "r:*"])
        return "l%d" % rng.randrange(3)
    out = []
    for _ in range(nf):
        r = rng.random()
        if leafsel:
            out.append("." if r < 0.5 else at())
        elif r < 0.45:
            out.append(at())
        elif r < 0.8:
            out.append(lf())
        elif r < 0.86:
            out.append("l%d/%s" % (rng.randrange(3), at()))
        elif r < 0.9:
            out.append(".//" + lf())
        elif r < 0.93:
            out.append("%s|%s" % (at(), at()))
        elif r < 0.96:
            out.append("%s|%s" % (lf(), lf()))
        elif r < 0.98:
            out.append("@*")
        else:
            out.append("c1/" + lf())
    return out


NS_SELECTORS = ["c1/t:m0", "c1/t:*", "*/o:*", ".//t:m0", "c1/t:m0|c1/o:m1", ".//o:*", "c1/p:*"]


def spell_xpath(rng, x):
    """the same XPath in another spelling of the grammar of Structures 3.11.6: child:: / attribute:: axis names instead of
    the abbreviations, a leading './', white space ('~') around the tokens"""
    def ws():
        return rng.choice(["", "", "~", "~~"])

    def step(st):
        if st.startswith("@"):
            body = st[1:]
            return ("@" + ws() + body) if rng.random() < 0.5 else ("attribute" + ws() + "::" + ws() + body)
        if st == ".":
            return st
        return st if rng.random() < 0.6 else ("child" + ws() + "::" + ws() + st)
    paths = []
    for pth in x.split("|"):
        desc = pth.startswith(".//")
        body = pth[3:] if desc else pth
        steps = [step(st) for st in body.split("/")]
        txt = (ws() + "/" + ws()).join(steps)
        if desc:
            txt = ".//" + ws() + txt
        elif body != "." and rng.random() < 0.3:
            txt = "." + ws() + "/" + ws() + txt
        paths.append(ws() + txt + ws())
    return "|".join(paths)


def gen_case2(rng, size=14, allow_desc=True):
    nl, na, nc = 3, 3, 3
    tys = "stidDq"
    # few distinct types per case so that fields of different constraints are comparable
    base = [rng.choice(tys) for _ in range(2)]
    case = {"ltypes": [rng.choice(base) for _ in range(nl)], "lnil": [rng.random() < 0.08 for _ in range(nl)],
            "atypes": [rng.choice(base) for _ in range(na)], "nc": nc, "ics": []}
    if rng.random() < 0.15:    # integer and decimal fields side by side, token and string
        case["ltypes"] = list(rng.choice(["idi", "std", "tsq", "ddi"]))
        case["atypes"] = list(rng.choice(["idi", "tsd", "iid", "sts"]))
    if rng.random() < 0.4:     # one primitive family, members at different derivation depths (hash vs equals)
        fam = FAMILIES[rng.choice(["dec", "dec", "dec", "str", "date"])]
        case["ltypes"] = [rng.choice(fam) for _ in range(nl)]
        case["atypes"] = [rng.choice(fam) for _ in range(na)]
        case["_xsitype"] = rng.choice([0.0, 0.2, 0.4])
        if case["_xsitype"]:
            case["lplain"] = [rng.random() < 0.7 for _ in range(nl)]
    if rng.random() < 0.15:    # declared anySimpleType / base types, the instances say xsi:type (actual type decides)
        case["ltypes"] = [rng.choice("yyd") for _ in range(nl)]
        case["ltypes"][rng.randrange(nl)] = rng.choice("yisD")
        case["lplain"] = [True] * nl
        case["_xsitype"] = rng.choice([0.6, 0.9])
        case["_xsipool"] = rng.choice(["isD", "id", "ilh", "sti", "iD"])
    qual = rng.random() < 0.5
    if qual:   # two more namespaces (imported schemas): global attributes t:g0..2, o:h0..1 (used through ref=) and the
               # global simple-typed elements t:m0, o:m1
        def okty(x):
            return x if (x in TYPE_NAME and x != "y") else "s"
        pool = case["atypes"] + case["ltypes"]
        case["atypes"] = case["atypes"] + [okty(rng.choice(pool)) for _ in range(5)]
        case["ltypes"] = case["ltypes"] + [okty(rng.choice(pool)) for _ in range(2)]
        case["lnil"] = case["lnil"] + [False, False]
        case["lplain"] = list(case.get("lplain") or [False] * nl) + [True, True]
    na = len(case["atypes"])
    sels = [s for s in SELECTORS if allow_desc or ".//" not in s]
    if qual:
        sels = sels + [s for s in NS_SELECTORS if allow_desc or ".//" not in s]
    # the value of element fields in other spellings (CDATA, character / entity references, comments, PIs)
    case["_spell"] = rng.choice([0.0, 0.0, 0.3, 0.7])
    case["_entities_ok"] = rng.random() < 0.5
    nid = 0
    for _ in range(rng.choice([1, 1, 2, 2, 3])):
        elem = rng.choice([0, 0, 0, 0, 1, 2])
        kind = rng.choice("ukk")
        nf = rng.choice([1, 1, 1, 2, 2, 3])
        sel = rng.choice(sels)
        leafsel = sel.split("|")[0].split("/")[-1][:1] in ("l", "t", "o", "p")
        key = {"elem": elem, "kind": kind, "id": nid, "refer": None, "sel": sel, "fields": gen_fields(rng, nf, leafsel, na)}
        case["ics"].append(key)
        nid += 1
        if rng.random() < 0.6:
            relem = elem if rng.random() < 0.75 else 0
            rsel = rng.choice(sels)
            rleaf = rsel.split("|")[0].split("/")[-1][:1] in ("l", "t", "o", "p")
            # reference fields of the same types where possible: reuse the key's fields half of the time
            rf = list(key["fields"]) if (rng.random() < 0.5 and rleaf == leafsel) else gen_fields(rng, nf, rleaf, na)
            ref = {"elem": relem, "kind": "r", "id": nid, "refer": key["id"], "sel": rsel, "fields": rf}
            if rng.random() < 0.5:
                case["ics"].append(ref)
            else:
                case["ics"].insert(len(case["ics"]) - 1, ref)
            nid += 1
    case["_nest"] = rng.random() < 0.12      # the root's name (which carries most constraints) also occurs nested
    case["tree"] = gen_record_tree(rng, case, size)
    del case["_nest"]
    for k in ("_xsitype", "_xsipool", "_spell", "_entities_ok"):
        case.pop(k, None)
    if rng.random() < 0.3:                    # the XPaths in another spelling of the same grammar
        for c in case["ics"]:
            c["sel"] = spell_xpath(rng, c["sel"])
            c["fields"] = [spell_xpath(rng, f) for f in c["fields"]]
    return case


def gen_case_siblings(rng):
    """sibling scopes: key and keyref declared on the repeated element c1; references are drawn from the keys of ALL
    siblings, so that a reference is often satisfied only by a key of a preceding or following sibling scope (which the
    specification does not put in scope) -- and keys/references of one primitive family but different types"""
    nl, na, nc = 3, 3, 3
    fam = FAMILIES[rng.choice(["dec", "dec", "str", "date"])]
    if rng.random() < 0.4:
        t = rng.choice("sidDtq")
        lt = [t, t, t]
    else:
        lt = [rng.choice(fam) for _ in range(nl)]
    case = {"ltypes": lt, "lnil": [False] * nl, "atypes": [rng.choice(fam) for _ in range(na)], "nc": nc, "ics": []}
    wrap = rng.random() < 0.6
    ksel = rng.choice(["l0", "l0", "c2/l0", "*/l0"]) if not wrap else "l0"
    case["ics"].append({"elem": 1, "kind": rng.choice("ku"), "id": 0, "refer": None, "sel": ksel, "fields": ["."]})
    ref = {"elem": 1, "kind": "r", "id": 1, "refer": 0, "sel": rng.choice(["l1", "l1", "c2/l1"]), "fields": ["."]}
    if rng.random() < 0.5:
        case["ics"].append(ref)
    else:
        case["ics"].insert(0, ref)
    groups = POOL[lt[0]]
    scopes = []
    allkeys = []
    for _ in range(rng.randrange(2, 5)):
        gs = rng.sample(range(len(groups)), min(len(groups), rng.randrange(1, 4)))
        scopes.append(gs)
        allkeys += gs
    kids = []
    for gs in scopes:
        inner = []
        keyholder = inner
        if "c2/" in ksel or "*/" in ksel:
            keyholder = []
        for g in gs:
            keyholder.append(["l", 0, {}, rng.choice(groups[g])])
        if keyholder is not inner:
            inner.append(["c", 2, {}, keyholder])
        refs = []
        for _ in range(rng.randrange(0, 4)):
            g = rng.choice(allkeys) if rng.random() < 0.85 else rng.randrange(len(groups))
            # the reference is written with the lexical forms of ITS type when the value exists there
            cand = [x for x in POOL[lt[1]] if any(v in groups[g] for v in x)]
            refs.append(["l", 1, {}, rng.choice(cand[0]) if cand else pick_value(rng, lt[1])])
        if "c2/" in ref["sel"]:
            inner.append(["c", 2, {}, refs])
        else:
            inner += refs
        rng.shuffle(inner)
        node = ["c", 1, {}, inner]
        # scopes at different nesting depths (the C++ keeps one ValueStore per constraint and depth)
        w = rng.random() < 0.5 if wrap else False
        kids.append(["c", 2, {}, [node]] if w else node)
    case["tree"] = ["c", 0, {}, kids]
    return case


def gen_case_recursive(rng):
    """key + keyref declared on a RECURSIVE element (c1 inside c1 inside c1 ...): the same constraints are active at several
    depths at once; references at outer levels are drawn from the keys of inner levels and vice versa (the key table of an
    inner scope is handed up to the enclosing scopes, never down).  Single chains (60%) and chains with sibling branches."""
    nl, na, nc = 3, 3, 3
    t = rng.choice("ssidt")
    lt = [t, t, t]
    case = {"ltypes": lt, "lnil": [False] * nl, "atypes": list("sid"), "nc": nc, "ics": []}
    case["ics"].append({"elem": 1, "kind": rng.choice("kku"), "id": 0, "refer": None, "sel": "l0", "fields": ["."]})
    ref = {"elem": 1, "kind": "r", "id": 1, "refer": 0, "sel": "l1", "fields": ["."]}
    if rng.random() < 0.5:
        case["ics"].append(ref)
    else:
        case["ics"].insert(0, ref)
    groups = POOL[t]
    depth = rng.randrange(2, 5)
    chain_only = rng.random() < 0.6
    free = list(range(len(groups)))
    rng.shuffle(free)
    levels = []          # keys (group indexes) per level of the main chain
    for d in range(depth):
        k = rng.randrange(0, 3)
        ks = [free.pop() for _ in range(min(k, len(free)))]
        if ks == [] and free and rng.random() < 0.5:
            ks = [free.pop()]
        if levels and rng.random() < 0.15:
            ks.append(rng.choice([g for lv in levels for g in lv] or ks or [0]))     # the same key at two levels
        levels.append(ks)
    allkeys = [g for lv in levels for g in lv]

    def refs_for(d):
        out = []
        for _ in range(rng.randrange(0, 3)):
            r = rng.random()
            inner = [g for lv in levels[d:] for g in lv]
            outer = [g for lv in levels[:d] for g in lv]
            if r < 0.55 and inner:
                g = rng.choice(inner)              # resolvable: this level or deeper
            elif r < 0.8 and outer:
                g = rng.choice(outer)              # only an enclosing level has it: must be reported
            elif allkeys and r < 0.9:
                g = rng.choice(allkeys)
            else:
                g = rng.randrange(len(groups))
            out.append(["l", 1, {}, rng.choice(groups[g])])
        return out

    def build(d):
        inner = [["l", 0, {}, rng.choice(groups[g])] for g in levels[d]] + refs_for(d)
        if d + 1 < depth:
            nxt = build(d + 1)
            inner.append(["c", 2, {}, [nxt]] if rng.random() < 0.25 else nxt)
        if not chain_only and rng.random() < 0.5:
            # a sibling branch with keys of its own (the F28/F29 class when it sits at the depth of another scope)
            sk = [["l", 0, {}, rng.choice(groups[rng.randrange(len(groups))])] for _ in range(rng.randrange(1, 3))]
            inner.append(["c", 1, {}, sk])
        rng.shuffle(inner)
        return ["c", 1, {}, inner]

    top = build(0)
    case["tree"] = ["c", 0, {}, [top] + ([["c", 1, {}, [["l", 0, {}, rng.choice(groups[0])]]]] if (not chain_only and rng.random() < 0.3) else [])]
    return case


def gen_case_fieldcard(rng):
    """fields of the shape child-step(s)/@attr and child-step(s)/child with 0 / 1 / 2+ matching nodes per selected element:
    0 -> absent (a key must report it, a unique must not), 1 -> the value, 2+ -> clause 3 is violated and at least one
    IC_FieldMultipleMatch must be reported"""
    nl, na, nc = 3, 3, 3
    t = rng.choice("ssid")
    case = {"ltypes": [t, t, t], "lnil": [False] * nl, "atypes": [t, t, t], "nc": nc, "ics": []}
    shape = rng.choice(["c2/@t0", "c2/@t0", "c2/l0", "l0", "*/@t0", "c2/c2/@t1"])
    kind = rng.choice("kuk")
    fields = [shape]
    if rng.random() < 0.3:
        fields.append("@t2")
    case["ics"].append({"elem": 0, "kind": kind, "id": 0, "refer": None, "sel": "c1", "fields": fields})
    groups = POOL[t]
    free = list(range(len(groups)))
    rng.shuffle(free)

    def val():
        g = free.pop() if free and rng.random() < 0.85 else rng.randrange(len(groups))
        return rng.choice(groups[g])

    kids = []
    nsel = rng.randrange(1, 4)
    multi_at = rng.randrange(nsel) if rng.random() < 0.7 else None
    for i in range(nsel):
        k = rng.choice([2, 2, 3]) if i == multi_at else rng.choice([0, 1, 1, 1])
        inner = []
        for _ in range(k):
            if shape in ("c2/@t0", "*/@t0"):
                inner.append(["c", 2, {0: val()}, []])
            elif shape == "c2/l0":
                inner.append(["c", 2, {}, [["l", 0, {}, val()]]])
            elif shape == "l0":
                inner.append(["l", 0, {}, val()])
            else:
                inner.append(["c", 2, {}, [["c", 2, {1: val()}, []]]])
        if shape != "l0" and rng.random() < 0.3:
            inner.append(["c", 2, {}, []])          # a step match without the attribute / child
        rng.shuffle(inner)
        attrs = {2: val()} if len(fields) > 1 and rng.random() < 0.9 else {}
        kids.append(["c", 1, attrs, inner])
    case["tree"] = ["c", 0, {}, kids]
    return case
