#!/usr/bin/env python3
"""prints the Coq terms of the example file systems used in coq/theories/C20/Examples20.v
(run once by hand: python3 gen/C20_examples.py > coq/theories/C20/Examples20.v)"""
import sys, os
sys.path.insert(0, os.path.join(os.path.dirname(os.path.abspath(__file__)), "..", "lib"))
sys.path.insert(0, os.path.join(os.path.dirname(os.path.abspath(__file__)), "..", "checks"))
from C20 import E


def cstr(s):
    return "[" + ";".join(str(ord(c)) for c in s) + "]"


def cpath(p):
    return "[" + ";".join(cstr(x) for x in p.split("/")) + "]"


def cnode(n):
    if n[0] == "E":
        attrs = ";".join("(%d,%s,%s)" % (a[0], cstr(a[1]), cstr(a[2])) for a in n[3])
        kids = ";".join(cnode(k) for k in n[4])
        return "Elem %d %s [%s] [%s]" % (n[1], cstr(n[2]), attrs, kids)
    return ("Text %s" if n[0] == "T" else "Comment %s") % cstr(n[1])


def cfs(files):
    out = []
    for p, f in files:
        if f is None:
            out.append("(%s, FDir)" % cpath(p))
        elif isinstance(f, str):
            out.append("(%s, FText %s)" % (cpath(p), cstr(f)))
        else:
            out.append("(%s, FDoc [%s])" % (cpath(p), ";".join(cnode(n) for n in f)))
    return "[" + ";\n   ".join(out) + "]"


def inc(href, parse=None, kids=None, extra=None):
    a = [(0, "href", href)] + ([(0, "parse", parse)] if parse else []) + list(extra or [])
    return E(1, "include", a, kids or [])


def fb(kids):
    return E(1, "fallback", [], kids)


EX = {}
# 1. a well-behaved tree: nested directories, ../ hrefs, repeated include, text, missing + fallback with an include
EX["ok"] = ("w/top.xml", [
    ("w/top.xml", [("C", " c "), E(0, "r", [(0, "ref", "k.txt")], [
        ("T", "pre"), inc("a/b.xml"), inc("t.txt", "text"), inc("a/b.xml", "xml"),
        inc("nope.xml", None, [fb([("T", "fb"), inc("s/leaf.xml"), E(0, "y")])]),
        E(0, "m", [(2, "base", "a/")], [inc("../s/leaf.xml")])])]),
    ("w/a/b.xml", [("C", "c1"), E(0, "b", [], [E(0, "z", [(0, "ref", "q.txt")]), inc("../s/leaf.xml"),
                                              inc("c/d.xml", None, [fb([("T", "unused"), inc("../gone.xml")])])])]),
    ("w/a/c/d.xml", [E(0, "d", [(2, "base", "q/")], [E(0, "e", [(0, "ref", "../../top.xml")])])]),
    ("w/s/leaf.xml", [E(3, "leaf", [(0, "ref", "x")], [])]),
    ("w/t.txt", "a<b>&amp;"),
    ("w/", None), ("w/a/", None), ("w/a/c/", None), ("w/s/", None)])
# 2. cycle of length 3 below the top document, and a document that includes itself
EX["cycle3"] = ("top.xml", [
    ("top.xml", [E(0, "r", [], [inc("l1.xml")])]),
    ("l1.xml", [E(0, "a", [], [inc("l2.xml")])]),
    ("l2.xml", [E(0, "b", [], [inc("l3.xml")])]),
    ("l3.xml", [E(0, "c", [], [inc("l1.xml")])])])
EX["self"] = ("top.xml", [("top.xml", [E(0, "r", [], [inc("top.xml")])])])
# 3. C20-F1: an include that fails inside a fallback that is not used
EX["f1"] = ("top.xml", [
    ("top.xml", [E(0, "r", [], [inc("ok.xml", None, [fb([inc("nope.xml")])])])]),
    ("ok.xml", [E(0, "k")])])
# 3b. the same with the failing include two ordinary elements deep inside the unused fallback
EX["f1deep"] = ("top.xml", [
    ("top.xml", [E(0, "r", [], [inc("ok.xml", None, [fb([E(0, "p", [], [("T", "t"), E(0, "q", [], [inc("nope.xml")])])])])])]),
    ("ok.xml", [E(0, "k")])])
# 4. C20-F2: the included root carries its own xml:base
EX["f2"] = ("top.xml", [
    ("top.xml", [E(0, "r", [], [inc("a/c/d.xml")])]),
    ("a/c/d.xml", [E(0, "d", [(2, "base", "q/")], [E(0, "e", [(0, "ref", "x")])])]),
    ("a/", None), ("a/c/", None)])
# 5. C20-F4: the base names a directory that does not exist
EX["f4"] = ("top.xml", [
    ("top.xml", [E(0, "r", [], [E(0, "b", [(2, "base", "nodir/")], [inc("../t.xml")])])]),
    ("t.xml", [E(0, "t")])])
# 6. C20-F7: the include's own xml:base names the target
EX["f7"] = ("top.xml", [
    ("top.xml", [E(0, "r", [], [E(1, "include", [(2, "base", "s/x.xml"), (0, "href", "x.xml")], [])])]),
    ("s/x.xml", [E(0, "x", [(0, "ref", "k")], [])]),
    ("s/", None)])
# 7. C20-F5: the document element vanishes
EX["f5"] = ("top.xml", [("top.xml", [inc("nope.xml", None, [fb([])])])])
# 8. invalid usages, one per document
EX["bad"] = ("top.xml", [
    ("top.xml", [E(0, "r", [], [inc("t.txt", "foo"), inc("t.txt", "text", None, [(0, "xpointer", "x")]),
                               fb([("T", "o")]), inc("zz", None, [fb([]), ("T", " "), fb([])]), inc("zz"),
                               E(1, "include", [], []), inc("zz", None, [inc("t.txt")])])]),
    ("t.txt", "hello")])

print("(** Example file systems for Properties_C20.v -- written by gen/C20_examples.py, do not edit by hand. *)")
print("From Coq Require Import NArith List.\nImport ListNotations.\nFrom XV Require Import C20.Spec20.\nLocal Open Scope N_scope.\n")
for name, (top, files) in EX.items():
    print("Definition fs_%s : fsys :=\n  %s." % (name, cfs(files)))
    print("Definition uri_%s : path := %s." % (name, cpath(top)))
    doc = [f for p, f in files if p == top][0]
    print("Definition top_%s : list node := [%s].\n" % (name, ";".join(cnode(n) for n in doc)))
