"""Seeded generators of DTD / XML Schema grammars and instance documents for the C16 pool-level correspondence.
Every grammar is assembled from feature snippets (each snippet = declarations + instance fragments that are valid
and fragments that are invalid for it), so that each component kind of the property text occurs in many grammars."""

DTD_SYS = "file:///c16/g.dtd"
NS = "urn:c16"


def dtd_case(rng):
    """-> (dtd text, [instances], set of feature names)"""
    feats = set()
    names = ["e%d" % i for i in range(rng.randrange(3, 8))]
    decl = []
    kids = {}
    # content models of every kind
    kinds = ["pcdata", "empty", "any", "mixed", "seq", "choice", "nested", "opt", "star", "plus"]
    for n in names:
        k = rng.choice(kinds)
        feats.add("cm-" + k)
        others = [x for x in names if x != n] or names
        a, b, c = (rng.choice(others) for _ in range(3))
        if k == "pcdata":
            decl.append("<!ELEMENT %s (#PCDATA)>" % n); kids[n] = ("text",)
        elif k == "empty":
            decl.append("<!ELEMENT %s EMPTY>" % n); kids[n] = ("empty",)
        elif k == "any":
            decl.append("<!ELEMENT %s ANY>" % n); kids[n] = ("any",)
        elif k == "mixed":
            decl.append("<!ELEMENT %s (#PCDATA|%s|%s)*>" % (n, a, b) if a != b else "<!ELEMENT %s (#PCDATA|%s)*>" % (n, a)); kids[n] = ("mixed", a, b)
        elif k == "seq":
            decl.append("<!ELEMENT %s (%s,%s)>" % (n, a, b)); kids[n] = ("seq", [a, b])
        elif k == "choice":
            decl.append("<!ELEMENT %s (%s|%s)>" % (n, a, b) if a != b else "<!ELEMENT %s (%s)>" % (n, a)); kids[n] = ("choice", [a, b])
        elif k == "nested":
            decl.append("<!ELEMENT %s ((%s,%s?)|(%s)+)*>" % (n, a, b, c)); kids[n] = ("seq", [a])
        elif k == "opt":
            decl.append("<!ELEMENT %s (%s?,%s*)>" % (n, a, b)); kids[n] = ("seq", [])
        elif k == "star":
            decl.append("<!ELEMENT %s (%s)*>" % (n, a)); kids[n] = ("seq", [a, a])
        else:
            decl.append("<!ELEMENT %s (%s)+>" % (n, a)); kids[n] = ("seq", [a])
    # attributes of every type with every default kind
    atts = {}
    types = ["CDATA", "ID", "IDREF", "IDREFS", "NMTOKEN", "NMTOKENS", "ENTITY", "ENTITIES", "(x|y|z)", "NOTATION (n1|n2)"]
    for n in names:
        if rng.random() < 0.7:
            al = []
            used_id = False
            for i in range(rng.randrange(1, 4)):
                ty = rng.choice(types)
                if ty == "ID" and used_id:
                    ty = "CDATA"
                used_id |= ty == "ID"
                if ty.startswith("NOTATION") and kids[n][0] == "empty":
                    ty = "NMTOKEN"
                feats.add("att-" + ty.split()[0].strip("("))
                if ty == "ID":
                    dflt = rng.choice(["#IMPLIED", "#REQUIRED"])
                elif ty in ("IDREF", "IDREFS", "ENTITY", "ENTITIES"):
                    dflt = rng.choice(["#IMPLIED", "#REQUIRED", '"u1"' if ty.startswith("ENTIT") else "#IMPLIED"])
                elif ty == "(x|y|z)":
                    dflt = rng.choice(['"x"', '#FIXED "y"', "#IMPLIED", "#REQUIRED"])
                elif ty.startswith("NOTATION"):
                    dflt = rng.choice(['"n1"', "#IMPLIED"])
                elif ty == "NMTOKENS":
                    dflt = rng.choice(['"t1  t2"', "#IMPLIED", '#FIXED "a b"'])
                else:
                    dflt = rng.choice(['"d %d"' % i if ty == "CDATA" else '"d%d"' % i, "#IMPLIED", "#REQUIRED", '#FIXED "f"'])
                feats.add("dflt-" + dflt.split()[0].strip('"#')[:5])
                al.append(("a%d" % i, ty, dflt))
            atts[n] = al
            decl.append("<!ATTLIST %s %s>" % (n, " ".join("%s %s %s" % x for x in al)))
    decl.append('<!NOTATION n1 SYSTEM "n1.exe">')
    decl.append('<!NOTATION n2 PUBLIC "-//pub//n2" "n2.exe">')
    decl.append('<!ENTITY u1 SYSTEM "u1.bin" NDATA n1>')
    decl.append('<!ENTITY u2 PUBLIC "-//p" "u2.bin" NDATA n2>')
    decl.append('<!ENTITY g1 "general %s text">' % rng.randrange(100))
    decl.append('<!ENTITY g2 "<%s/>">' % names[0] if kids[names[0]][0] == "empty" else '<!ENTITY g2 "two">')
    if rng.random() < 0.5:
        decl.append('<!ENTITY %% pe "<!ELEMENT viaPE (#PCDATA)>"> %pe;')
        feats.add("param-entity")
    feats |= {"notation", "unparsed-entity", "general-entity"}
    rng.shuffle(decl)
    dtd = "\n".join(decl) + "\n"

    def attrs_for(n, valid):
        out = []
        for an, ty, dflt in atts.get(n, []):
            give = dflt == "#REQUIRED" or rng.random() < 0.4
            if not valid and rng.random() < 0.4:
                give = not give if dflt == "#REQUIRED" else give
            if not give:
                continue
            if ty == "CDATA":
                v = "f" if "FIXED" in dflt else "v\t%d" % rng.randrange(9)
            elif ty == "ID":
                v = "id%d" % rng.randrange(3 if not valid else 10 ** 6)
            elif ty in ("IDREF", "IDREFS"):
                v = "id1" if valid else "nosuch"
            elif ty in ("ENTITY", "ENTITIES"):
                v = "u1" if valid or rng.random() < 0.5 else "g1"
            elif ty == "(x|y|z)":
                v = "y" if "FIXED" in dflt else (rng.choice("xyz") if valid else "w")
            elif ty.startswith("NOTATION"):
                v = "n1" if valid else "n3"
            elif ty == "NMTOKENS":
                v = "a b" if "FIXED" in dflt else ("  t1   t2 " if valid else "a,b c")
            else:
                v = "f" if "FIXED" in dflt else ("tok" if valid else "not a token")
            if not valid and "FIXED" in dflt and rng.random() < 0.5:
                v = "other"
            out.append('%s="%s"' % (an, v))
        return (" " + " ".join(out)) if out else ""

    def inst(n, valid, depth):
        k = kids[n]
        if depth > 4:
            body = ""
        elif k[0] == "text":
            body = rng.choice(["t", "a &g1; b", "&#65;", ""]) if valid else rng.choice(["t", "<%s/>" % names[0]])
        elif k[0] == "empty":
            body = "" if valid else rng.choice(["", "x", " "])
        elif k[0] == "any":
            body = "".join(inst(rng.choice(names), valid, depth + 1) for _ in range(rng.randrange(3))) + "txt"
        elif k[0] == "mixed":
            body = "m" + "".join(inst(rng.choice(k[1:]) if valid else rng.choice(names), valid, depth + 1) for _ in range(rng.randrange(3))) + "&g2;" * (0 if valid else rng.randrange(2))
        else:
            seq = list(k[1])
            if k[0] == "choice":
                seq = [rng.choice(seq)]
            if not valid and rng.random() < 0.6:
                r = rng.random()
                if r < 0.3 and seq:
                    seq.pop(rng.randrange(len(seq)))
                elif r < 0.6:
                    seq.append(rng.choice(names))
                else:
                    seq = seq[::-1] + ["undeclared"] * rng.randrange(2)
            body = "".join(inst(c, valid, depth + 1) if c in kids else "<%s/>" % c for c in seq)
            if not valid and rng.random() < 0.3:
                body += "stray text"
            elif rng.random() < 0.3:
                body = " \n " + body + " "
        return "<%s%s>%s</%s>" % (n, attrs_for(n, valid), body, n)

    insts = []
    for i in range(rng.randrange(3, 6)):
        root = rng.choice(names)
        valid = i % 2 == 0
        subset = rng.choice(["", "", ' [<!ATTLIST %s extra CDATA "int">]' % root])
        insts.append('<!DOCTYPE %s SYSTEM "%s"%s>%s' % (root, DTD_SYS, subset, inst(root, valid, 0)))
    return dtd, insts, feats


# ---------------------------------------------------------------------------------------------------------
# XML Schema
# ---------------------------------------------------------------------------------------------------------
def _simple_types(rng):
    """list of (feature, type-name, declaration, valid lexicals, invalid lexicals)"""
    lo, hi = rng.randrange(-50, 10), rng.randrange(11, 500)
    ln = rng.randrange(2, 6)
    fa = 1 + hi % 8
    return [
        ("st-int-range", "tInt", '<xs:simpleType name="tInt"><xs:restriction base="xs:int"><xs:minInclusive value="%d"/><xs:maxExclusive value="%d"/></xs:restriction></xs:simpleType>' % (lo, hi), [str(lo), str(hi - 1), "+7", " 8 "], [str(lo - 1), str(hi), "1.0", "x"]),
        ("st-decimal-digits", "tDec", '<xs:simpleType name="tDec"><xs:restriction base="xs:decimal"><xs:totalDigits value="5"/><xs:fractionDigits value="2"/><xs:minExclusive value="-10.5"/><xs:maxInclusive value="999.99" fixed="true"/></xs:restriction></xs:simpleType>', ["1.25", "-10.49", "999.99", "007"], ["1.255", "-10.5", "1000", "1e2"]),
        ("st-string-len", "tStr", '<xs:simpleType name="tStr"><xs:restriction base="xs:string"><xs:minLength value="%d"/><xs:maxLength value="%d"/><xs:whiteSpace value="preserve"/></xs:restriction></xs:simpleType>' % (ln, ln + 3), ["x" * ln, "y" * (ln + 3), " " * ln], ["x" * (ln - 1), "y" * (ln + 4)]),
        ("st-pattern", "tPat", '<xs:simpleType name="tPat"><xs:restriction base="xs:token"><xs:pattern value="[A-C]{2}\\d+(-x)?"/><xs:pattern value="zz"/></xs:restriction></xs:simpleType>', ["AB12", "CA0-x", "zz", "  BB7 "], ["AD1", "AB", "zzz", "ab1"]),
        ("st-enum", "tEnum", '<xs:simpleType name="tEnum"><xs:restriction base="xs:NMTOKEN"><xs:enumeration value="red"/><xs:enumeration value="green"/><xs:enumeration value="blue%d"/></xs:restriction></xs:simpleType>' % ln, ["red", "green", "blue%d" % ln], ["Red", "blue", ""]),
        ("st-length-fixed", "tLen", '<xs:simpleType name="tLen"><xs:restriction base="xs:hexBinary"><xs:length value="2"/></xs:restriction></xs:simpleType>', ["0aFF", "0000"], ["0a", "0aFFF", "gg00"]),
        ("st-list", "tList", '<xs:simpleType name="tList"><xs:list itemType="c:tInt"/></xs:simpleType>', [str(lo), "%d %d  %d" % (lo, lo + 1, hi - 1), ""], ["%d x" % lo, str(hi)]),
        ("st-list-len", "tList2", '<xs:simpleType name="tList2"><xs:restriction><xs:simpleType><xs:list itemType="xs:NCName"/></xs:simpleType><xs:maxLength value="3"/><xs:minLength value="1"/></xs:restriction></xs:simpleType>', ["a", "a b c"], ["", "a b c d", "1a"]),
        ("st-union", "tUnion", '<xs:simpleType name="tUnion"><xs:union memberTypes="c:tInt xs:boolean c:tEnum"/></xs:simpleType>', [str(lo), "true", "red", "0"], ["maybe", "1.5", str(hi + 3) + "0"]),
        ("st-union-anon", "tUnion2", '<xs:simpleType name="tUnion2"><xs:union><xs:simpleType><xs:restriction base="xs:date"><xs:minInclusive value="2000-01-01"/></xs:restriction></xs:simpleType><xs:simpleType><xs:restriction base="xs:string"><xs:enumeration value="never"/></xs:restriction></xs:simpleType></xs:union></xs:simpleType>', ["2001-02-03", "never", "2000-01-01Z"], ["1999-12-31", "Never", "2001-02-30"]),
        ("st-datetime", "tDT", '<xs:simpleType name="tDT"><xs:restriction base="xs:dateTime"><xs:minInclusive value="2001-01-01T00:00:00Z"/><xs:maxExclusive value="2030-06-15T12:00:00+02:00"/></xs:restriction></xs:simpleType>', ["2001-01-01T00:00:00Z", "2020-02-29T23:59:59.5-05:00"], ["2000-12-31T23:59:59Z", "2030-06-15T10:00:00Z", "2020-02-30T00:00:00"]),
        ("st-duration", "tDur", '<xs:simpleType name="tDur"><xs:restriction base="xs:duration"><xs:minInclusive value="P1D"/><xs:maxInclusive value="P1Y"/></xs:restriction></xs:simpleType>', ["P1D", "P11M", "PT36H"], ["PT1H", "P2Y", "1D"]),
        ("st-double", "tDbl", '<xs:simpleType name="tDbl"><xs:restriction base="xs:double"><xs:minInclusive value="-1.5E2"/><xs:maxInclusive value="1E3"/><xs:enumeration value="1"/><xs:enumeration value="2.5"/><xs:enumeration value="-INF"/></xs:restriction></xs:simpleType>', ["1.0", "2.5E0", "25e-1"], ["3", "NaN", "-INF", "1,0"]),
        ("st-float", "tFlt", '<xs:simpleType name="tFlt"><xs:restriction base="xs:float"><xs:minExclusive value="0"/><xs:maxExclusive value="INF"/></xs:restriction></xs:simpleType>', ["1", "3.4E38", "1e-40"], ["0", "-1", "INF", "abc"]),
        ("st-gtypes", "tGYM", '<xs:simpleType name="tGYM"><xs:restriction base="xs:gYearMonth"><xs:minInclusive value="2000-01"/></xs:restriction></xs:simpleType>', ["2000-01", "2010-12Z"], ["1999-12", "2010-13", "2010"]),
        # fractional seconds in facet values (finding F62: XMLDateTime::serialize drops fMilliSecond/fHasTime); the digits
        # are derived from hi so that no further random numbers are consumed
        ("st-datetime-frac", "tDTf", '<xs:simpleType name="tDTf"><xs:restriction base="xs:dateTime"><xs:minInclusive value="2010-10-10T10:10:10.%d"/><xs:maxInclusive value="2010-10-10T10:10:10.%d"/></xs:restriction></xs:simpleType>' % (fa, fa + 1),
         ["2010-10-10T10:10:10.%d5" % fa, "2010-10-10T10:10:10.%d" % fa, "2010-10-10T10:10:10.%d" % (fa + 1)],
         ["2010-10-10T10:10:10", "2010-10-10T10:10:10.%d9" % (fa - 1), "2010-10-10T10:10:10.%d01" % (fa + 1), "2010-10-10T10:10:11"]),
        ("st-time-frac", "tTimeF", '<xs:simpleType name="tTimeF"><xs:restriction base="xs:time"><xs:enumeration value="07:08:09.%d25"/><xs:enumeration value="07:08:09"/></xs:restriction></xs:simpleType>' % fa,
         ["07:08:09.%d25" % fa, "07:08:09", "07:08:09.%d250" % fa], ["07:08:09.%d2" % fa, "07:08:09.5", "07:08:10"]),
        ("st-time", "tTime", '<xs:simpleType name="tTime"><xs:restriction base="xs:time"><xs:maxInclusive value="12:00:00"/></xs:restriction></xs:simpleType>', ["12:00:00", "00:00:00.1"], ["12:00:01", "24:01:00"]),
        ("st-anyuri-qname", "tUri", '<xs:simpleType name="tUri"><xs:restriction base="xs:anyURI"><xs:maxLength value="20"/></xs:restriction></xs:simpleType>', ["http://a/b", "x"], ["http://a/" + "b" * 20]),
        ("st-base64", "tB64", '<xs:simpleType name="tB64"><xs:restriction base="xs:base64Binary"><xs:minLength value="2"/></xs:restriction></xs:simpleType>', ["QUJD", "QUI="], ["QQ==", "@@@@"]),
        ("st-derived2", "tInt2", '<xs:simpleType name="tInt2"><xs:restriction base="c:tInt"><xs:maxInclusive value="%d"/><xs:pattern value="\\d+"/></xs:restriction></xs:simpleType>' % min(hi - 1, 10), ["1", "9"], [str(hi - 1) if hi - 1 > 10 else "11", "-1", "+1"]),
        ("st-bool-pattern", "tBool", '<xs:simpleType name="tBool"><xs:restriction base="xs:boolean"><xs:pattern value="true|false"/></xs:restriction></xs:simpleType>', ["true", "false"], ["1", "0", "TRUE"]),
    ]


def xsd_case(rng, annotation_len=None):
    """-> (schema text, [instances], features).  The root element `doc` contains an unbounded choice of item
    elements; every feature contributes item declarations plus valid and invalid item instances."""
    feats = set()
    decls = []      # global declarations
    items = []      # (element ref particle text, [valid xml], [invalid xml])
    sts = _simple_types(rng)
    chosen = rng.sample(sts, rng.randrange(4, len(sts) + 1))
    need = {"tInt", "tEnum"}   # referenced by list/union types and by complex types below
    for f, name, decl, ok, bad in sts:
        if (f, name, decl, ok, bad) in chosen or name in need:
            decls.append(decl)
            feats.add(f)
            el = "v" + name
            kind = rng.choice(["elem", "elem-default", "elem-nillable", "attr"])
            if kind == "attr":
                dflt = rng.choice(['', ' default="%s"' % ok[0].strip(), ' use="required"', ' fixed="%s"' % ok[0].strip()])
                feats.add("attr-use" + dflt.split("=")[0].strip())
                decls.append('<xs:element name="%s"><xs:complexType><xs:attribute name="a" type="c:%s"%s/></xs:complexType></xs:element>' % (el, name, dflt))
                fixed = "fixed=" in dflt
                items.append((el, ['<c:%s a="%s"/>' % (el, (ok[0].strip() if fixed else v)) for v in ok] + (['<c:%s/>' % el] if "required" not in dflt else []),
                              ['<c:%s a="%s"/>' % (el, v) for v in bad] + (['<c:%s/>' % el] if "required" in dflt else []) + ['<c:%s b="1"/>' % el]))
            else:
                extra = {"elem": "", "elem-default": ' default="%s"' % ok[0].strip(), "elem-nillable": ' nillable="true"'}[kind]
                feats.add(kind)
                decls.append('<xs:element name="%s" type="c:%s"%s/>' % (el, name, extra))
                good = ['<c:%s>%s</c:%s>' % (el, v, el) for v in ok]
                if kind == "elem-default":
                    good.append('<c:%s/>' % el)
                if kind == "elem-nillable":
                    good.append('<c:%s xsi:nil="true"/>' % el)
                wrong = ['<c:%s>%s</c:%s>' % (el, v, el) for v in bad] + ['<c:%s xsi:nil="true">x</c:%s>' % (el, el)]
                if kind != "elem-nillable":
                    wrong.append('<c:%s xsi:nil="true"/>' % el)
                items.append((el, good, wrong))
    # complex types: every content model kind
    cm = []
    mo = rng.randrange(2, 5)
    cm.append(("ct-sequence-occurs", 'cSeq', '<xs:complexType name="cSeq"><xs:sequence><xs:element name="p" type="xs:string"/><xs:element name="q" type="c:tInt" minOccurs="0" maxOccurs="%d"/><xs:element name="r" type="xs:date" minOccurs="1" maxOccurs="unbounded"/></xs:sequence><xs:attribute name="id" type="xs:ID"/><xs:attribute name="lang" type="xs:language" default="en"/></xs:complexType>' % mo,
               ['<c:p>s</c:p><c:r>2001-01-01</c:r>', '<c:p/>' + '<c:q>1</c:q>' * mo + '<c:r>2001-01-01</c:r><c:r>2002-02-02</c:r>'],
               ['<c:r>2001-01-01</c:r>', '<c:p/>' + '<c:q>1</c:q>' * (mo + 1) + '<c:r>2001-01-01</c:r>', '<c:p/><c:q>1</c:q>', '<c:p/><c:r>yesterday</c:r>']))
    cm.append(("ct-choice", 'cCho', '<xs:complexType name="cCho"><xs:choice minOccurs="1" maxOccurs="2"><xs:element name="p" type="xs:int"/><xs:sequence><xs:element name="q" type="xs:int"/><xs:element name="r" type="xs:int" minOccurs="0"/></xs:sequence></xs:choice></xs:complexType>',
               ['<c:p>1</c:p>', '<c:q>1</c:q><c:r>2</c:r><c:p>3</c:p>', '<c:q>1</c:q><c:q>1</c:q>'],
               ['', '<c:p>1</c:p><c:p>1</c:p><c:p>1</c:p>', '<c:r>1</c:r>']))
    cm.append(("ct-all", 'cAll', '<xs:complexType name="cAll"><xs:all><xs:element name="p" type="xs:int"/><xs:element name="q" type="xs:int" minOccurs="0"/><xs:element name="r" type="c:tEnum"/></xs:all></xs:complexType>',
               ['<c:r>red</c:r><c:p>1</c:p>', '<c:q>1</c:q><c:p>1</c:p><c:r>green</c:r>'],
               ['<c:p>1</c:p>', '<c:p>1</c:p><c:r>red</c:r><c:p>1</c:p>', '<c:r>pink</c:r><c:p>1</c:p>']))
    cm.append(("ct-mixed", 'cMix', '<xs:complexType name="cMix" mixed="true"><xs:sequence><xs:element name="b" type="xs:string" minOccurs="0" maxOccurs="unbounded"/></xs:sequence></xs:complexType>',
               ['text <c:b>x</c:b> more', 'only text', ''], ['<c:i/>', 't<c:b><c:b/></c:b>']))
    cm.append(("ct-empty", 'cEmp', '<xs:complexType name="cEmp"><xs:attribute name="a" type="xs:NMTOKENS" use="optional"/></xs:complexType>',
               ['', ''], ['x', '<c:b/>']))
    cm.append(("ct-simplecontent-ext", 'cSC', '<xs:complexType name="cSC"><xs:simpleContent><xs:extension base="c:tInt"><xs:attribute name="unit" type="c:tEnum" default="red"/></xs:extension></xs:simpleContent></xs:complexType>',
               ['5', ' 6 '], ['x', '<c:b/>', '']))
    cm.append(("ct-simplecontent-restr", 'cSCR', '<xs:complexType name="cSCR"><xs:simpleContent><xs:restriction base="c:cSC"><xs:maxInclusive value="7"/></xs:restriction></xs:simpleContent></xs:complexType>',
               ['5', '7'], ['8', 'x']))
    cm.append(("ct-extension", 'cExt', '<xs:complexType name="cExt"><xs:complexContent><xs:extension base="c:cSeq"><xs:sequence><xs:element name="z" type="xs:boolean"/></xs:sequence><xs:attribute name="more" type="xs:int" fixed="3"/></xs:extension></xs:complexContent></xs:complexType>',
               ['<c:p/><c:r>2001-01-01</c:r><c:z>true</c:z>'], ['<c:p/><c:r>2001-01-01</c:r>', '<c:z>true</c:z>']))
    cm.append(("ct-restriction", 'cRes', '<xs:complexType name="cRes"><xs:complexContent><xs:restriction base="c:cSeq"><xs:sequence><xs:element name="p" type="xs:string"/><xs:element name="r" type="xs:date" minOccurs="1" maxOccurs="2"/></xs:sequence></xs:restriction></xs:complexContent></xs:complexType>',
               ['<c:p/><c:r>2001-01-01</c:r>'], ['<c:p/><c:q>1</c:q><c:r>2001-01-01</c:r>', '<c:p/><c:r>2001-01-01</c:r><c:r>2001-01-01</c:r><c:r>2001-01-01</c:r>']))
    cm.append(("ct-wildcard", 'cAny', '<xs:complexType name="cAny"><xs:sequence><xs:any namespace="##other" processContents="lax" minOccurs="0" maxOccurs="2"/><xs:any namespace="##targetNamespace" processContents="strict" minOccurs="0"/></xs:sequence><xs:anyAttribute namespace="##other" processContents="skip"/></xs:complexType>',
               ['<o:x xmlns:o="urn:o">1</o:x>', '<c:vtInt>%s</c:vtInt>' % sts[0][3][0] if True else '', ''],
               ['<c:undeclared/>', '<o:x xmlns:o="urn:o"/><o:x xmlns:o="urn:o"/><o:x xmlns:o="urn:o"/>', '<nons/>']))
    cm.append(("ct-group-ref", 'cGrp', '<xs:complexType name="cGrp"><xs:sequence><xs:group ref="c:g1" maxOccurs="2"/></xs:sequence><xs:attributeGroup ref="c:ag1"/></xs:complexType>',
               ['<c:gp>1</c:gp>', '<c:gq/><c:gp>2</c:gp>'], ['', '<c:gp>1</c:gp><c:gp>1</c:gp><c:gp>1</c:gp>']))
    decls.append('<xs:group name="g1"><xs:choice><xs:element name="gp" type="xs:int"/><xs:element name="gq"><xs:complexType/></xs:element></xs:choice></xs:group>')
    decls.append('<xs:attributeGroup name="ag1"><xs:attribute name="g" type="xs:int" default="4"/><xs:attribute name="h" type="xs:QName"/><xs:anyAttribute namespace="##local" processContents="lax"/></xs:attributeGroup>')
    feats |= {"group", "attributeGroup", "anyAttribute"}
    must = {"cSeq", "cSC"}
    pick = rng.sample(cm, rng.randrange(4, len(cm) + 1))
    for f, name, decl, ok, bad in cm:
        if (f, name, decl, ok, bad) in pick or name in must:
            decls.append(decl)
            feats.add(f)
            el = "x" + name
            decls.append('<xs:element name="%s" type="c:%s"/>' % (el, name))
            items.append((el, ['<c:%s>%s</c:%s>' % (el, v, el) for v in ok], ['<c:%s>%s</c:%s>' % (el, v, el) for v in bad]))
    if any(n == "cExt" for _, n, _, _, _ in pick):
        # xsi:type substitution and block
        items.append(("xcSeq", ['<c:xcSeq xsi:type="c:cExt"><c:p/><c:r>2001-01-01</c:r><c:z>1</c:z></c:xcSeq>'],
                      ['<c:xcSeq xsi:type="c:cAll"><c:p>1</c:p></c:xcSeq>', '<c:xcSeq xsi:type="c:nosuch"/>']))
        feats.add("xsi-type")
    # substitution groups, abstract, final/block
    if rng.random() < 0.8:
        decls.append('<xs:element name="head" type="xs:string" abstract="%s"/>' % rng.choice(["true", "false"]))
        decls.append('<xs:element name="sub1" type="xs:string" substitutionGroup="c:head"/>')
        decls.append('<xs:element name="sub2" substitutionGroup="c:head"><xs:simpleType><xs:restriction base="xs:string"><xs:maxLength value="3"/></xs:restriction></xs:simpleType></xs:element>')
        decls.append('<xs:element name="holder"><xs:complexType><xs:sequence><xs:element ref="c:head" maxOccurs="unbounded"/></xs:sequence></xs:complexType></xs:element>')
        items.append(("holder", ['<c:holder><c:sub1>a</c:sub1><c:sub2>abc</c:sub2></c:holder>'],
                      ['<c:holder><c:head>a</c:head><c:sub2>abcd</c:sub2></c:holder>', '<c:holder/>']))
        feats.add("substitution-group")
    # identity constraints
    if rng.random() < 0.85:
        decls.append('<xs:element name="table"><xs:complexType><xs:sequence>'
                     '<xs:element name="row" maxOccurs="unbounded"><xs:complexType><xs:sequence><xs:element name="k2" type="xs:string" minOccurs="0"/></xs:sequence><xs:attribute name="k" type="xs:int"/><xs:attribute name="ref" type="xs:int"/></xs:complexType></xs:element>'
                     '</xs:sequence></xs:complexType>'
                     '<xs:key name="pk"><xs:selector xpath="c:row"/><xs:field xpath="@k"/></xs:key>'
                     '<xs:keyref name="fk" refer="c:pk"><xs:selector xpath="./c:row|.//c:row"/><xs:field xpath="@ref"/></xs:keyref>'
                     '<xs:unique name="uq"><xs:selector xpath=".//c:row"/><xs:field xpath="c:k2"/><xs:field xpath="@k"/></xs:unique>'
                     '</xs:element>')
        items.append(("table", ['<c:table><c:row k="1" ref="2"/><c:row k="2"><c:k2>a</c:k2></c:row></c:table>'],
                      ['<c:table><c:row k="1"/><c:row k="1"/></c:table>', '<c:table><c:row k="1" ref="9"/></c:table>', '<c:table><c:row/></c:table>']))
        feats.add("identity-constraint")
    # notation
    decls.append('<xs:notation name="jpeg" public="image/jpeg" system="viewer.exe"/>')
    decls.append('<xs:simpleType name="tNot"><xs:restriction base="xs:NOTATION"><xs:enumeration value="c:jpeg"/></xs:restriction></xs:simpleType>')
    decls.append('<xs:element name="pic"><xs:complexType><xs:attribute name="fmt" type="c:tNot"/></xs:complexType></xs:element>')
    items.append(("pic", ['<c:pic fmt="c:jpeg"/>'], ['<c:pic fmt="c:png"/>']))
    feats.add("notation")
    # global attribute + anonymous local types + fixed element
    decls.append('<xs:attribute name="gattr" type="xs:positiveInteger" default="1"/>')
    decls.append('<xs:element name="fx" type="xs:string" fixed="const"/>')
    items.append(("fx", ['<c:fx>const</c:fx>', '<c:fx/>'], ['<c:fx>other</c:fx>']))
    ann = "annotation text %d" % rng.randrange(1000)
    if annotation_len is not None:
        ann = "Z" * annotation_len
    head = ('<xs:schema xmlns:xs="http://www.w3.org/2001/XMLSchema" targetNamespace="%s" xmlns:c="%s" elementFormDefault="qualified" '
            'finalDefault="%s" blockDefault="%s">\n<xs:annotation><xs:appinfo source="urn:src">ai</xs:appinfo><xs:documentation xml:lang="en">%s</xs:documentation></xs:annotation>\n'
            % (NS, NS, rng.choice(["", "extension"]), rng.choice(["", "substitution"]), ann))
    feats.add("annotation")
    rng.shuffle(decls)
    root = ('<xs:element name="doc"><xs:annotation><xs:documentation>root %d</xs:documentation></xs:annotation><xs:complexType><xs:choice minOccurs="0" maxOccurs="unbounded">%s</xs:choice>'
            '<xs:attribute ref="c:gattr"/><xs:anyAttribute namespace="##other" processContents="lax"/></xs:complexType></xs:element>'
            % (rng.randrange(100), "".join('<xs:element ref="c:%s"/>' % e for e in sorted({i[0] for i in items}))))
    xsd = head + "\n".join(decls) + "\n" + root + "\n</xs:schema>\n"
    insts = []
    hdr = '<c:doc xmlns:c="%s" xmlns:xsi="http://www.w3.org/2001/XMLSchema-instance"%s>'
    for i in range(rng.randrange(4, 8)):
        valid = i % 2 == 0
        body = []
        for _ in range(rng.randrange(1, 7)):
            el, ok, bad = rng.choice(items)
            body.append(rng.choice(ok) if valid or rng.random() < 0.4 else rng.choice(bad))
        extra = rng.choice(["", ' c:gattr="3"', ' c:gattr="0"' if not valid else ""])
        insts.append(hdr % (NS, extra) + "".join(body) + "</c:doc>")
    insts.append('<other xmlns="urn:unknown"/>')
    return xsd, insts, feats


# ---------------------------------------------------------------------------------------------------------
# name clashes: user-defined components named like built-in types / like each other across namespaces
# ---------------------------------------------------------------------------------------------------------
NSB = "urn:c16b"
_BUILTIN_OK = {"integer": ("12", "x1"), "string": ("any thing", None), "date": ("2001-01-01", "12"), "ID": ("id1", "1 2"),
               "decimal": ("1.5", "abc"), "boolean": ("true", "maybe"), "token": ("a b", None), "NCName": ("abc", "1:2"),
               "int": ("7", "x"), "anyURI": ("http://a", None), "double": ("1e3", "abc"), "QName": ("xs:a", "1:1:1")}
_CLASH_NAMES = ["integer", "string", "date", "ID", "decimal", "boolean", "token", "NCName", "int", "anyURI", "double", "QName",
                "anyType", "anySimpleType"]


def _user_def(rng, prefix, name):
    """a user-defined simple type called `name`: (declaration, valid lexicals, invalid lexicals); deliberately unlike xs:name"""
    k = rng.randrange(6)
    if k == 0:
        v = ["one%d" % rng.randrange(9), "two"]
        return ('<xs:simpleType name="%s"><xs:restriction base="xs:string"><xs:enumeration value="%s"/><xs:enumeration value="%s"/></xs:restriction></xs:simpleType>' % (name, v[0], v[1]), v, ["zzz", "12", "2001-01-01"])
    if k == 1:
        return ('<xs:simpleType name="%s"><xs:restriction base="xs:token"><xs:pattern value="[a-c]+"/></xs:restriction></xs:simpleType>' % name, ["abc", " cab "], ["12", "true", "abd"])
    if k == 2:
        lo = rng.randrange(100, 900)
        return ('<xs:simpleType name="%s"><xs:restriction base="xs:int"><xs:minInclusive value="%d"/><xs:maxInclusive value="%d"/></xs:restriction></xs:simpleType>' % (name, lo, lo + 50), [str(lo), str(lo + 50)], ["12", "abc", str(lo + 51)])
    if k == 3:
        return ('<xs:simpleType name="%s"><xs:list itemType="xs:boolean"/></xs:simpleType>' % name, ["true false", "1"], ["abc", "12"])
    if k == 4:
        return ('<xs:simpleType name="%s"><xs:restriction base="xs:date"><xs:minInclusive value="2000-01-01"/></xs:restriction></xs:simpleType>' % name, ["2001-01-01"], ["12", "1999-01-01", "abc"])
    return ('<xs:simpleType name="%s"><xs:union memberTypes="xs:gYear xs:boolean"/></xs:simpleType>' % name, ["2001", "false"], ["abc", "12.5"])


def xsd_clash_case(rng):
    """-> ([imported schema (ns b), main schema (ns c)], [instances], features)"""
    feats = {"name-clash"}
    names = rng.sample(_CLASH_NAMES, rng.randrange(2, 6))
    bdecl, cdecl, items = [], [], []
    for n in names:
        in_b = rng.random() < 0.6
        as_complex = rng.random() < 0.2
        if in_b:
            db, okb, badb = _user_def(rng, "b", n)
            bdecl.append(db)
            bdecl.append('<xs:element name="%s" type="b:%s"/>' % (n, n))
            items.append(("b:" + n, ['<b:%s>%s</b:%s>' % (n, v, n) for v in okb], ['<b:%s>%s</b:%s>' % (n, v, n) for v in badb]))
            feats.add("clash-two-namespaces")
        if as_complex:
            cdecl.append('<xs:complexType name="%s"><xs:simpleContent><xs:extension base="xs:%s"><xs:attribute name="%s" type="xs:int" default="4"/></xs:extension></xs:simpleContent></xs:complexType>'
                         % (n, "int" if n in ("anyType", "anySimpleType") else n, n))
            okv = ["7"] if n in ("anyType", "anySimpleType") else [_BUILTIN_OK[n][0]]
            badv = ["x y"] if n in ("anyType", "anySimpleType") else ([_BUILTIN_OK[n][1]] if _BUILTIN_OK[n][1] else [])
            cdecl.append('<xs:element name="%s" type="c:%s"/>' % (n, n))
            items.append(("c:" + n, ['<c:%s>%s</c:%s>' % (n, v, n) for v in okv] + ['<c:%s %s="5">%s</c:%s>' % (n, n, okv[0], n)],
                          ['<c:%s>%s</c:%s>' % (n, v, n) for v in badv] + ['<c:%s %s="x">%s</c:%s>' % (n, n, okv[0], n)]))
            feats.add("clash-complex-type")
            continue
        dc, ok, bad = _user_def(rng, "c", n)
        cdecl.append(dc)
        feats.add("clash-simple-type")
        # global element / attribute / group / attributeGroup all called like the type
        cdecl.append('<xs:element name="%s" type="c:%s"%s/>' % (n, n, rng.choice(["", ' default="%s"' % ok[0].strip(), ' nillable="true"'])))
        items.append(("c:" + n, ['<c:%s>%s</c:%s>' % (n, v, n) for v in ok], ['<c:%s>%s</c:%s>' % (n, v, n) for v in bad]))
        cdecl.append('<xs:attribute name="%s" type="c:%s" default="%s"/>' % (n, n, ok[0].strip()))
        cdecl.append('<xs:attributeGroup name="%s"><xs:attribute ref="c:%s"/><xs:attribute name="loc" type="c:%s"/></xs:attributeGroup>' % (n, n, n))
        cdecl.append('<xs:group name="%s"><xs:sequence><xs:element name="g%s" type="c:%s" minOccurs="0"/><xs:element name="a%s" minOccurs="0"><xs:simpleType><xs:restriction base="c:%s"/></xs:simpleType></xs:element></xs:sequence></xs:group>' % (n, n, n, n, n))
        cdecl.append('<xs:element name="h%s"><xs:complexType><xs:group ref="c:%s"/><xs:attributeGroup ref="c:%s"/></xs:complexType></xs:element>' % (n, n, n))
        items.append(("c:h" + n, ['<c:h%s><c:g%s>%s</c:g%s></c:h%s>' % (n, n, ok[0], n, n), '<c:h%s c:%s="%s" loc="%s"><c:a%s>%s</c:a%s></c:h%s>' % (n, n, ok[-1].strip(), ok[0].strip(), n, ok[0], n, n), '<c:h%s/>' % n],
                      ['<c:h%s><c:g%s>%s</c:g%s></c:h%s>' % (n, n, bad[0], n, n), '<c:h%s c:%s="%s"/>' % (n, n, bad[0]), '<c:h%s loc="%s"><c:a%s>%s</c:a%s></c:h%s>' % (n, bad[-1], n, bad[0], n, n)]))
        feats |= {"clash-element", "clash-attribute", "clash-group", "clash-anonymous-restriction"}
        # restriction chain, list and union built on the clashing type
        cdecl.append('<xs:simpleType name="%s_r"><xs:restriction base="c:%s"/></xs:simpleType>' % (n, n))
        cdecl.append('<xs:simpleType name="%s_rr"><xs:restriction base="c:%s_r"/></xs:simpleType>' % (n, n))
        members = ["c:" + n] + (["b:" + n] if in_b else []) + (["xs:" + n] if n in _BUILTIN_OK else [])
        rng.shuffle(members)
        cdecl.append('<xs:simpleType name="%s_u"><xs:union memberTypes="%s"/></xs:simpleType>' % (n, " ".join(members)))
        cdecl.append('<xs:element name="r%s" type="c:%s_rr"/>' % (n, n))
        cdecl.append('<xs:element name="u%s" type="c:%s_u"/>' % (n, n))
        items.append(("c:r" + n, ['<c:r%s>%s</c:r%s>' % (n, v, n) for v in ok], ['<c:r%s>%s</c:r%s>' % (n, v, n) for v in bad]))
        uok = list(ok) + ([_BUILTIN_OK[n][0]] if n in _BUILTIN_OK else [])
        items.append(("c:u" + n, ['<c:u%s>%s</c:u%s>' % (n, v, n) for v in uok], ['<c:u%s>%s</c:u%s>' % (n, "@ @ @", n)]))
        if "list" not in dc and "union" not in dc:
            cdecl.append('<xs:simpleType name="%s_l"><xs:list itemType="c:%s"/></xs:simpleType>' % (n, n))
            cdecl.append('<xs:element name="l%s" type="c:%s_l"/>' % (n, n))
            items.append(("c:l" + n, ['<c:l%s>%s %s</c:l%s>' % (n, ok[0].strip(), ok[-1].strip(), n)], ['<c:l%s>%s %s</c:l%s>' % (n, ok[0].strip(), bad[0], n)]))
        feats |= {"clash-restriction-chain", "clash-union", "clash-list"}
        # the built-in of the same name next to it
        if n in _BUILTIN_OK:
            cdecl.append('<xs:element name="x%s" type="xs:%s"/>' % (n, n))
            bo, bb = _BUILTIN_OK[n]
            items.append(("c:x" + n, ['<c:x%s>%s</c:x%s>' % (n, bo, n)], ['<c:x%s>%s</c:x%s>' % (n, bb, n)] if bb else ['<c:x%s><c:q/></c:x%s>' % (n, n)]))
    bdecl.append('<xs:element name="bdummy" type="xs:string"/>')
    rng.shuffle(cdecl)
    sb = ('<xs:schema xmlns:xs="http://www.w3.org/2001/XMLSchema" targetNamespace="%s" xmlns:b="%s" elementFormDefault="qualified">\n%s\n</xs:schema>\n'
          % (NSB, NSB, "\n".join(bdecl)))
    refs = "".join('<xs:element ref="%s"/>' % e for e in sorted({i[0] for i in items}))
    sc = ('<xs:schema xmlns:xs="http://www.w3.org/2001/XMLSchema" targetNamespace="%s" xmlns:c="%s" xmlns:b="%s" elementFormDefault="qualified" attributeFormDefault="unqualified">\n'
          '<xs:import namespace="%s"/>\n%s\n<xs:element name="doc"><xs:complexType><xs:choice minOccurs="0" maxOccurs="unbounded">%s</xs:choice></xs:complexType></xs:element>\n</xs:schema>\n'
          % (NS, NS, NSB, NSB, "\n".join(cdecl), refs))
    insts = []
    hdr = '<c:doc xmlns:c="%s" xmlns:b="%s" xmlns:xsi="http://www.w3.org/2001/XMLSchema-instance" xmlns:xs="http://www.w3.org/2001/XMLSchema">' % (NS, NSB)
    for i in range(rng.randrange(4, 8)):
        valid = i % 2 == 0
        body = []
        for _ in range(rng.randrange(2, 9)):
            el, ok, bad = rng.choice(items)
            body.append(rng.choice(ok) if valid or not bad or rng.random() < 0.3 else rng.choice(bad))
        insts.append(hdr + "".join(body) + "</c:doc>")
    return [sb, sc], insts, feats
