#!/usr/bin/env python3
"""Shared machinery for the xerces-c Coq verification checks.

Every check (./check Cxx) goes through the same steps (DESIGN.md section 2.2):
  1. rebuild the library from /repo's *working tree* (incremental cmake build, hooks guard ON)
  2. regenerate the translator outputs (coq/theories/Gen/*.v) from /repo's source
  3. build the property's Coq theorems with a full .vo build (never -vos), parse Print Assumptions
  4. build the extracted OCaml model driver and the C++ harness
  5. run the correspondence (property specific) and decide
  6. write evidence/Cxx.json
"""
import glob
import hashlib
import json
import os
import random
import re
import shutil
import subprocess
import sys
import time

VERIF = os.path.dirname(os.path.dirname(os.path.abspath(__file__)))
REPO = os.environ.get("VERIF_REPO", "/repo")
BUILD = os.environ.get("VERIF_BUILD", os.path.join(VERIF, ".build"))
COQ = os.path.join(VERIF, "coq")
BIN = os.path.join(VERIF, "bin") if "VERIF_BUILD" not in os.environ else os.path.join(BUILD, "bin")
GUARD = "XERCES_VERIF_HOOKS"
NPROC = os.cpu_count() or 4

ALLOWED_AXIOMS = {
    # axioms declared by the Coq standard library / installed libraries that a theorem may depend on;
    # every one that actually occurs is named in the evidence file of the property.
    "functional_extensionality_dep", "FunctionalExtensionality.functional_extensionality_dep",
    "proof_irrelevance", "ProofIrrelevance.proof_irrelevance", "Eqdep.Eq_rect_eq.eq_rect_eq",
    "eq_rect_eq", "JMeq_eq", "JMeq.JMeq_eq", "classic", "Classical_Prop.classic",
    "propositional_extensionality", "ClassicalDedekindReals.sig_forall_dec",
    "ClassicalDedekindReals.sig_not_dec",
}

FORBIDDEN_RE = re.compile(
    r"\b(Admitted|admit|Axiom|Axioms|Parameter|Parameters|Conjecture|Conjectures|Unset\s+Guard|bypass_check|"
    r"Admit\s+Obligations|Unset\s+Positivity|Unset\s+Universe\s+Checking|native_compute)\b")


def sh(cmd, cwd=None, timeout=None, env=None, check=False, inp=None):
    """run a shell command, return (rc, stdout+stderr)"""
    e = dict(os.environ)
    if env:
        e.update(env)
    try:
        p = subprocess.run(cmd, shell=isinstance(cmd, str), cwd=cwd, timeout=timeout, env=e,
                           stdout=subprocess.PIPE, stderr=subprocess.STDOUT, input=inp)
        out = p.stdout.decode("utf-8", "replace") if isinstance(p.stdout, bytes) else p.stdout
        rc = p.returncode
    except subprocess.TimeoutExpired as ex:
        out = (ex.stdout or b"").decode("utf-8", "replace") + "\n[TIMEOUT after %ss]" % timeout
        rc = 124
    if check and rc != 0:
        raise RuntimeError("command failed (%d): %s\n%s" % (rc, cmd, out[-4000:]))
    return rc, out


def repo_state_key():
    """identifies the current working tree of /repo (HEAD + uncommitted diff)"""
    _, head = sh("git -C %s rev-parse HEAD" % REPO)
    _, diff = sh("git -C %s diff HEAD -- src" % REPO)
    return hashlib.sha1((head + diff).encode()).hexdigest()[:16]


# ------------------------------------------------------------------------------------------------
# library builds
# ------------------------------------------------------------------------------------------------
VARIANTS = {
    # name: (compiler env, extra CXX flags, linker flags, build type)
    "lib": ("", "", "", "RelWithDebInfo"),
    "lib-asan": ("CC=clang CXX=clang++", "-fsanitize=address,undefined -fno-sanitize-recover=undefined "
                 "-fno-omit-frame-pointer -fno-sanitize=vptr,function",
                 "-fsanitize=address,undefined", "RelWithDebInfo"),
    "lib-tsan": ("CC=clang CXX=clang++", "-fsanitize=thread -fno-omit-frame-pointer", "-fsanitize=thread",
                 "RelWithDebInfo"),
}


def lib_dir(variant="lib"):
    return os.path.join(BUILD, variant)


def lib_so(variant="lib"):
    return os.path.join(lib_dir(variant), "src", "libxerces-c-4.0.so")


def build_lib(variant="lib", log=None):
    """(re)build libxerces-c from /repo's current working tree with the hooks guard on.
    Serialised by a file lock so that concurrently running checks do not run two ninjas in one directory."""
    import fcntl
    os.makedirs(BUILD, exist_ok=True)
    with open(os.path.join(BUILD, "." + variant + ".lock"), "w") as lk:
        fcntl.flock(lk, fcntl.LOCK_EX)
        return _build_lib(variant, log)


def _build_lib(variant, log):
    d = lib_dir(variant)
    cenv, cxx, ld, bt = VARIANTS[variant]
    t0 = time.time()
    if not os.path.exists(os.path.join(d, "build.ninja")):
        os.makedirs(d, exist_ok=True)
        cmd = ("%s cmake -G Ninja -S %s -B %s -DCMAKE_BUILD_TYPE=%s "
               "-DCMAKE_CXX_FLAGS='-Wno-error -w -D%s %s' -DCMAKE_SHARED_LINKER_FLAGS='%s' "
               "-Dtranscoder=icu -Dmessage-loader=inmemory -Dmutex-manager=standard -Dxmlch-type=char16_t"
               % (cenv, REPO, d, bt, GUARD, cxx, ld))
        rc, out = sh(cmd, timeout=2400)
        if rc != 0:
            shutil.rmtree(d, ignore_errors=True)   # a half-configured directory must not be reused
            raise RuntimeError("cmake configure failed for %s:\n%s" % (variant, out[-3000:]))
    rc, out = sh("cmake --build %s --target xerces-c -j %d" % (d, NPROC), timeout=3000)
    if rc != 0:
        raise BuildError("library build (%s) failed:\n%s" % (variant, out[-6000:]))
    if log is not None:
        log.append("build_lib[%s] %.1fs" % (variant, time.time() - t0))
    return lib_so(variant)


class BuildError(Exception):
    pass


def cxx_flags(variant="lib"):
    d = lib_dir(variant)
    return ("-std=gnu++17 -O1 -g -w -DHAVE_CONFIG_H=1 -D_THREAD_SAFE=1 -D%s -I%s -I%s/src -I%s/src -I%s/harness"
            % (GUARD, d, d, REPO, VERIF))


def build_harness(name, variant="lib", extra="", log=None):
    """compile harness/<name>.cpp against the freshly built library; cached on (source, repo state)."""
    src = os.path.join(VERIF, "harness", name + ".cpp")
    os.makedirs(BIN, exist_ok=True)
    suffix = "" if variant == "lib" else "-" + variant[4:]
    out = os.path.join(BIN, "xh_" + name + suffix)
    hdrs = sorted(glob.glob(os.path.join(VERIF, "harness", "*.hpp")))
    h = hashlib.sha1()
    for f in [src] + hdrs:
        h.update(open(f, "rb").read())
    h.update(repo_state_key().encode())
    h.update(extra.encode())
    key = h.hexdigest()
    stamp = out + ".key"
    if os.path.exists(out) and os.path.exists(stamp) and open(stamp).read() == key:
        return out
    cenv, cxx, ld, _ = VARIANTS[variant]
    comp = "clang++" if "clang" in cenv else "g++"
    t0 = time.time()
    cmd = "%s %s %s %s %s -o %s %s %s -Wl,-rpath,%s -lpthread" % (
        comp, cxx_flags(variant), cxx, extra, src, out, lib_so(variant), ld,
        os.path.dirname(lib_so(variant)))
    rc, o = sh(cmd, timeout=900)
    if rc != 0:
        raise BuildError("harness %s failed to compile:\n%s" % (name, o[-6000:]))
    open(stamp, "w").write(key)
    if log is not None:
        log.append("build_harness[%s] %.1fs" % (name, time.time() - t0))
    return out


def regen_shared(log=None):
    """Translator units whose output is imported by MORE than one property's theories (C05's tables by C01/C04/C12/C20,
    C02's character tables and error partition by C03, C04's reader constants by C01, C14's id-map constants by C13):
    regenerated from REPO's current source at the start of EVERY check, so that no check proves against a stale copy
    produced by another check's earlier run.  (write_if_changed keeps make incremental.)  A unit that fails to read
    the source is noted here; the check that owns it reports the broken tie."""
    tdir = os.path.join(VERIF, "translator")
    if tdir not in sys.path:
        sys.path.insert(0, tdir)
    units = [("tables", "gen_utf8"), ("tables", "gen_tables"), ("tables", "gen_recognizer"), ("c02_errs", "generate"),
             ("c02_xmlchar", "generate"), ("c04_consts", "generate"), ("c14_idmap", "generate")]
    for mod, fn in units:
        try:
            getattr(__import__(mod), fn)()
        except Exception as e:
            if log is not None:
                log.append("regen_shared: %s.%s failed: %r" % (mod, fn, e))


# ------------------------------------------------------------------------------------------------
# Coq
# ------------------------------------------------------------------------------------------------
def write_if_changed(path, content):
    os.makedirs(os.path.dirname(path), exist_ok=True)
    if os.path.exists(path) and open(path).read() == content:
        return False
    with open(path, "w") as f:
        f.write(content)
    return True


def coq_project(dirs=None, tag="all"):
    """(re)generate coq/_CoqProject.<tag> and Makefile.<tag> listing the .v files of the given theory
    sub-directories (all of them when dirs is None).  One Makefile per property keeps concurrently running
    checks from rewriting each other's dependency files."""
    if dirs is None:
        files = sorted(glob.glob(os.path.join(COQ, "theories", "**", "*.v"), recursive=True))
    else:
        files = []
        for d in dirs:
            files += sorted(glob.glob(os.path.join(COQ, "theories", d, "*.v")))
    rel = [os.path.relpath(f, COQ) for f in files]
    txt = "-Q theories XV\n-arg -w -arg -all\n" + "\n".join(rel) + "\n"
    proj = "_CoqProject." + tag
    mk = "Makefile." + tag
    changed = write_if_changed(os.path.join(COQ, proj), txt)
    if changed or not os.path.exists(os.path.join(COQ, mk)):
        sh("coq_makefile -f %s -o %s" % (proj, mk), cwd=COQ, check=True)
    if tag == "all":
        write_if_changed(os.path.join(COQ, "_CoqProject"), txt)
    return mk


def grep_gate(dirs):
    """reject forbidden vernacular anywhere in the development (comments are stripped first)"""
    bad = []
    for d in dirs:
        for f in sorted(glob.glob(os.path.join(COQ, "theories", d, "*.v"))):
            txt = open(f).read()
            txt = strip_coq_comments(txt)
            for m in FORBIDDEN_RE.finditer(txt):
                bad.append("%s: %s" % (os.path.relpath(f, VERIF), m.group(0)))
    return bad


def strip_coq_comments(txt):
    out = []
    depth = 0
    i = 0
    n = len(txt)
    instr = False
    while i < n:
        c = txt[i]
        if depth == 0 and c == '"':
            instr = not instr
            out.append(c)
            i += 1
            continue
        if not instr and txt.startswith("(*", i):
            depth += 1
            i += 2
            continue
        if not instr and depth > 0 and txt.startswith("*)", i):
            depth -= 1
            i += 2
            continue
        if depth == 0:
            out.append(c)
        i += 1
    return "".join(out)


def coq_make(targets, timeout=1500, log=None, dirs=None, tag="all"):
    """full .vo build of the given targets (paths relative to coq/), -k so independent files survive.
    returns (ok:bool, output)"""
    mk = coq_project(dirs, tag)
    t0 = time.time()
    rc, out = sh("timeout %d make -f %s -k -j%d %s 2>&1" % (timeout, mk, NPROC, " ".join(targets)), cwd=COQ,
                 timeout=timeout + 30)
    if log is not None:
        log.append("coq_make %s rc=%d %.1fs" % (" ".join(targets), rc, time.time() - t0))
    return rc == 0, out


def parse_assumptions(out):
    """parse the output of `Print Assumptions` lines from a coqc run.
    returns dict theorem-ish index -> list of axioms; we only need the union + closedness."""
    axioms = set()
    closed = 0
    blocks = re.split(r"\n(?=Closed under the global context|Axioms:)", out)
    for b in blocks:
        if b.startswith("Closed under the global context"):
            closed += 1
        elif b.startswith("Axioms:"):
            for line in b.splitlines()[1:]:
                m = re.match(r"^([A-Za-z_][\w.']*)\s*:", line)
                if m:
                    axioms.add(m.group(1))
                elif line and not line.startswith(" "):
                    break
    return closed, axioms


def count_theorems(vfile):
    txt = strip_coq_comments(open(vfile).read())
    return re.findall(r"^\s*(?:Theorem|Lemma|Corollary|Example)\s+([\w']+)", txt, re.M)


# ------------------------------------------------------------------------------------------------
# OCaml (extracted models)
# ------------------------------------------------------------------------------------------------
def build_ocaml(name, modules, driver="driver.ml", log=None):
    """ocaml/<name>/: compile extracted modules (written there by coq Extract_<name>.v) + the driver into
    bin/xm_<name>.  The driver is assembled from `module M = <first module>`, ocaml/common/conv.ml.in and
    ocaml/<name>/driver.ml.in."""
    d = os.path.join(VERIF, "ocaml", name)
    out = os.path.join(BIN, "xm_" + name)
    os.makedirs(BIN, exist_ok=True)
    srcs = []
    for m in modules:
        srcs += [m + ".mli", m + ".ml"]
    drv = "module M = %s\n" % (modules[0][0].upper() + modules[0][1:])
    drv += open(os.path.join(VERIF, "ocaml", "common", "conv.ml.in")).read()
    drv += open(os.path.join(d, "driver.ml.in")).read()
    write_if_changed(os.path.join(d, "driver.ml"), drv)
    srcs.append("driver.ml")
    h = hashlib.sha1()
    for s in srcs:
        h.update(open(os.path.join(d, s), "rb").read())
    key = h.hexdigest()
    stamp = out + ".key"
    if os.path.exists(out) and os.path.exists(stamp) and open(stamp).read() == key:
        return out
    t0 = time.time()
    rc, o = sh("ocamlfind ocamlopt -O2 -w -a -o %s %s" % (out, " ".join(srcs)), cwd=d, timeout=600)
    if rc != 0:
        raise BuildError("ocaml build %s failed:\n%s" % (name, o[-4000:]))
    open(stamp, "w").write(key)
    for ext in ("*.cmi", "*.cmx", "*.o"):
        for f in glob.glob(os.path.join(d, ext)):
            os.remove(f)
    if log is not None:
        log.append("build_ocaml[%s] %.1fs" % (name, time.time() - t0))
    return out


# ------------------------------------------------------------------------------------------------
# known findings
# ------------------------------------------------------------------------------------------------
def load_known_findings(prop):
    """known-findings.json plus known-findings.d/*.json (one file per property; same format)"""
    out = []
    paths = [os.path.join(VERIF, "known-findings.json")] + sorted(glob.glob(os.path.join(VERIF, "known-findings.d", "*.json")))
    for p in paths:
        if not os.path.exists(p):
            continue
        data = json.load(open(p))
        out += [f for f in data.get("findings", []) if f.get("property") == prop and f.get("status") == "known"]
    return out


# ------------------------------------------------------------------------------------------------
# the per-run context
# ------------------------------------------------------------------------------------------------
class Ctx:
    def __init__(self, prop, tier, seed):
        self.prop = prop
        self.tier = tier
        self.seed = seed
        self.rng = random.Random(seed)
        self.t0 = time.time()
        self.log = []
        self.violations = []          # list of (replay_path, text, no_input:bool)
        self.known_hits = []          # list of str
        self.coverage = {"evaluations": 0, "distinct_nontrivial": 0, "rule": "", "samples": [],
                         "obligations": 0, "discharged": 0, "checker_cmd": "", "trusted_base": [],
                         "traces_validated_against_impl": 0, "exhaustive": False}
        self.assumptions = []
        self.level = "proof"
        self.known = load_known_findings(prop)
        self._distinct = set()
        os.makedirs(os.path.join(VERIF, "evidence"), exist_ok=True)
        os.makedirs(os.path.join(VERIF, "replays", prop), exist_ok=True)

    # ---- bookkeeping -------------------------------------------------------------------------
    def note(self, s):
        self.log.append(s)
        print("[%s] %s" % (self.prop, s), flush=True)

    def count(self, n=1):
        self.coverage["evaluations"] += n

    def distinct(self, key):
        """register a non-trivial case by its canonical key (hashed); counts distinct ones"""
        self._distinct.add(hashlib.sha1(repr(key).encode()).digest()[:8])

    def sample(self, s, maxn=8):
        if len(self.coverage["samples"]) < maxn:
            self.coverage["samples"].append(s)

    def replay_path(self, tag):
        d = os.path.join(VERIF, "replays", self.prop)
        n = len(glob.glob(os.path.join(d, "*.json")))
        return os.path.join(d, "%s-%s-%d.json" % (tag, self.seed, n))

    def violation(self, tag, payload, no_input=False):
        path = self.replay_path(tag)
        payload = dict(payload)
        payload.update({"property": self.prop, "seed": self.seed, "tier": self.tier, "tag": tag})
        with open(path, "w") as f:
            json.dump(payload, f, indent=1, default=str)
        self.violations.append((path, tag, no_input))
        return path

    def known_finding(self, fid, what):
        line = "%s: %s" % (fid, what)
        if line not in self.known_hits:
            self.known_hits.append(line)

    def find_known(self, fid):
        for f in self.known:
            if f.get("id") == fid:
                return f
        return None

    # ---- standard steps -----------------------------------------------------------------------
    def build_lib(self, variant="lib"):
        try:
            r = build_lib(variant, self.log)
            if variant == "lib":
                regen_shared(self.log)
            return r
        except BuildError as e:
            # the tree does not compile: not a property verdict, but the check cannot hold
            self.note(str(e)[-2000:])
            p = self.violation("build-failed", {"what": "library does not build from /repo working tree",
                                                "output": str(e)[-3000:]}, no_input=True)
            self.finish()

    def harness(self, name, variant="lib", extra=""):
        try:
            return build_harness(name, variant, extra, self.log)
        except BuildError as e:
            self.note(str(e)[-3000:])
            self.violation("harness-build-failed", {"what": "harness no longer compiles against /repo "
                                                    "(an API the tie relies on changed)", "output": str(e)[-3000:]},
                           no_input=True)
            self.finish()

    def prove(self, dirs, targets, props_file=None, extra_obligations=0, timeout=1500):
        """build Coq targets; account obligations; returns (ok, output, failed_files)"""
        bad = grep_gate(dirs)
        if bad:
            self.note("grep gate: forbidden vernacular: %s" % bad)
            self.violation("grep-gate", {"what": "forbidden vernacular in development", "hits": bad}, no_input=True)
        ok, out = coq_make(targets, timeout=timeout, log=self.log, dirs=dirs, tag=self.prop)
        names = []
        if props_file:
            names = count_theorems(os.path.join(COQ, props_file))
        nobl = len(names) + extra_obligations
        self.coverage["obligations"] += nobl
        failed = re.findall(r"(?:File \"\./|make.*\*\*\* \[[^\]]*?)(theories/[\w/]+)\.v", out) if not ok else []
        failed = sorted(set(failed))
        if ok:
            self.coverage["discharged"] += nobl
        closed, axioms = parse_assumptions(out)
        # Print Assumptions output only appears when the file is actually recompiled; cache it
        cache = os.path.join(COQ, ".assumptions-%s.json" % self.prop)
        if props_file and ok:
            vo = os.path.join(COQ, props_file[:-2] + ".vo")
            if closed or axioms:
                json.dump({"closed": closed, "axioms": sorted(axioms)}, open(cache, "w"))
            elif os.path.exists(cache):
                c = json.load(open(cache))
                closed, axioms = c["closed"], set(c["axioms"])
            else:
                # force a recompile of the properties file to obtain the assumptions
                if os.path.exists(vo):
                    os.remove(vo)
                ok2, out2 = coq_make([props_file[:-2] + ".vo"], timeout=timeout, log=self.log, dirs=dirs, tag=self.prop)
                closed, axioms = parse_assumptions(out2)
                json.dump({"closed": closed, "axioms": sorted(axioms)}, open(cache, "w"))
        extra_ax = {a for a in axioms if a.split(".")[-1] not in {x.split(".")[-1] for x in ALLOWED_AXIOMS}}
        if extra_ax:
            self.violation("axioms", {"what": "theorem depends on axioms outside the allowed list",
                                      "axioms": sorted(extra_ax)}, no_input=True)
        self.coverage["checker_cmd"] = ("cd coq && coq_makefile -f _CoqProject.%s -o Makefile.%s && make -f Makefile.%s "
                                        "-k -j%d %s" % (self.prop, self.prop, self.prop, NPROC, " ".join(targets)))
        self.coverage.setdefault("print_assumptions", {})
        self.coverage["print_assumptions"] = {"closed_under_global_context": closed, "axioms": sorted(axioms)}
        self.coverage["theorems"] = names
        return ok, out, failed

    def coqchk(self, modules, timeout=900):
        """thorough tier: re-check the compiled property library with the independent checker and record the axioms
        it reports.  modules e.g. ["XV.C05.Properties_C05"]"""
        t0 = time.time()
        rc, out = sh("timeout %d coqchk -o -silent -Q theories XV %s 2>&1" % (timeout, " ".join(modules)),
                     cwd=COQ, timeout=timeout + 30)
        out = "\n".join(out.splitlines()[-60:])
        self.coverage["coqchk"] = {"modules": modules, "rc": rc, "tail": out[-1500:], "wall_s": round(time.time() - t0, 1)}
        if rc == 124 or "[TIMEOUT" in out:
            self.note("coqchk did not finish within %ds (recorded, not a verdict)" % timeout)
        elif rc != 0 or "Fatal" in out or "Error" in out:
            self.violation("coqchk", {"what": "coqchk rejected the compiled library", "output": out[-3000:]}, no_input=True)
        return out

    def ocaml(self, name, modules, driver="driver.ml"):
        try:
            return build_ocaml(name, modules, driver, self.log)
        except BuildError as e:
            self.note(str(e))
            self.violation("ocaml-build-failed", {"what": "extracted model does not build", "output": str(e)[-3000:]},
                           no_input=True)
            self.finish()

    # ---- end ----------------------------------------------------------------------------------
    def finish(self):
        cov = self.coverage
        cov["distinct_nontrivial"] = len(self._distinct)
        wall = time.time() - self.t0
        ev = {
            "property_id": self.prop, "tier": self.tier, "seed": self.seed, "level": self.level,
            "coverage": cov, "assumptions": self.assumptions, "wall_s": round(wall, 2),
            "violations": len(self.violations), "known_findings_seen": self.known_hits,
            "log": self.log[-60:],
        }
        with open(os.path.join(VERIF, "evidence", self.prop + ".json"), "w") as f:
            json.dump(ev, f, indent=1, default=str)
        for k in self.known_hits:
            print("KNOWN-FINDING: property=%s %s" % (self.prop, k))
        if self.violations:
            for path, tag, no_input in self.violations:
                print("VIOLATION property=%s replay=%s%s" % (self.prop, path,
                                                             " no-failing-input-found" if no_input else ""))
            sys.stdout.flush()
            sys.exit(1)
        print("[%s] OK  obligations %d/%d, evaluations %d, distinct %d, %.1fs" % (
            self.prop, cov["discharged"], cov["obligations"], cov["evaluations"], cov["distinct_nontrivial"], wall))
        sys.stdout.flush()
        sys.exit(0)


GLOBAL_TRUSTED_BASE = [
    "Coq 8.16.1 kernel incl. its vm_compute conversion (no native_compute anywhere)",
    "no Axiom/Parameter/Admitted in the development (grep gate run on every check); axioms reported by Print "
    "Assumptions are listed under coverage.print_assumptions",
    "Coq extraction (ExtrOcamlBasic only: Extract Inductive bool/option/unit/list/prod/sumbool/sumor to their OCaml "
    "counterparts, Extract Inlined Constant for fst/snd/andb/orb etc. as in that file; ExtrOcamlNativeString where the "
    "driver prints strings) + OCaml 4.13.1 compiler + the hand-written line-protocol driver",
    "the python translator (regex reading of C++ tables/constants) and its dynamic cross-check against the built library",
    "the C++ harness and canonicalisers in /verif/harness; g++ 12 / clang 14, ICU, libstdc++",
    "hand-written Gallina models are tied to the code only by the differential correspondence run on every check",
]
