#!/usr/bin/env python3
"""regenerate MANIFEST.json from checks/meta/*.json (one file per claimed property) and checks/meta/not_applicable.json"""
import glob
import json
import os

VERIF = os.path.dirname(os.path.dirname(os.path.abspath(__file__)))
ALL = ["C%02d" % i for i in range(1, 21)]


def main():
    metas = {}
    for f in sorted(glob.glob(os.path.join(VERIF, "checks", "meta", "C*.json"))):
        m = json.load(open(f))
        metas[m["property_id"]] = m
    na_path = os.path.join(VERIF, "checks", "meta", "not_applicable.json")
    na = json.load(open(na_path)) if os.path.exists(na_path) else {}
    hooks_path = os.path.join(VERIF, "checks", "meta", "hooks.json")
    hooks = json.load(open(hooks_path)) if os.path.exists(hooks_path) else {}
    checks = []
    for pid in ALL:
        if pid not in metas:
            continue
        m = metas[pid]
        checks.append({
            "property_id": pid,
            "quick_cmd": "./check %s --tier quick" % pid,
            "thorough_cmd": "./check %s --tier thorough" % pid,
            "evidence_file": "evidence/%s.json" % pid,
            "replay_cmd_template": "./check %s --replay {path}" % pid,
            "engine": "coq-xv",
            "level_claimed": {"category": m["level"], "text": m["text"], "design_ref": m.get("design_ref", "DESIGN.md")},
            "level_note": m["note"],
            "technique": m["technique"],
        })
    man = {
        "version": 1,
        "setup_cmd": "./check setup",
        "hooks": {
            "guard": "XERCES_VERIF_HOOKS",
            "enable": "checks build /repo's working tree into /verif/.build/lib with -DCMAKE_CXX_FLAGS=-DXERCES_VERIF_HOOKS (cmake+ninja, incremental)",
            "baseline_off_cmd": "cmake --build /repo/_build -j16 && ctest --test-dir /repo/_build -j8 --timeout 900",
            "source_commits": hooks.get("source_commits", []),
            "add_only": True,
        },
        "engines": [{
            "name": "coq-xv", "path": "coq/theories",
            "serves_properties": [c["property_id"] for c in checks],
            "kind_free_text": "Coq 8.16.1 development (models, specs, theorems) + python translators regenerating Gen/*.v from /repo + "
                              "extracted OCaml model drivers (bin/xm_*) + C++ harnesses (bin/xh_*) for the differential correspondence",
        }],
        "checks": checks,
        "notes": "see DESIGN.md; `./check Cxx` rebuilds the library from /repo's working tree, regenerates Gen/*.v, rebuilds the "
                 "theorems (full .vo), runs the correspondence and writes evidence/Cxx.json",
        "not_applicable": [{"property_id": pid, "reason": na.get(pid, "check not built yet in this round (no claim made)")}
                           for pid in ALL if pid not in metas],
    }
    with open(os.path.join(VERIF, "MANIFEST.json"), "w") as f:
        json.dump(man, f, indent=1)
    print("MANIFEST.json: %d checks, %d not claimed" % (len(checks), len(man["not_applicable"])))


if __name__ == "__main__":
    main()
