#!/usr/bin/env python3
"""Translator unit of C01 (growth arithmetic, round 4): reads the capacity tests, comparison operators, growth factors and
initial sizes of
  ValueVectorOf::ensureExtraCapacity / addElement / insertElementAt         (src/xercesc/util/ValueVectorOf.c)
  BaseRefVectorOf::ensureExtraCapacity / addElement                        (src/xercesc/util/BaseRefVectorOf.c)
  RefHashTableOf::put / rehash / initialize                                (src/xercesc/util/RefHashTableOf.c)
  XMLStringPool::addNewEntry + constructor                                 (src/xercesc/util/StringPool.cpp)
  NameIdPool::put + constructor, and every NameIdPool<..>(mod, initSize) call site of the parser
from /repo's CURRENT source and regenerates coq/theories/Gen/GenC01Grow.v.  Comparison operators are emitted as codes
(0 ==, 1 >=, 2 >, 3 <=, 4 <, 5 !=) that the model interprets, so that an edited test or factor changes the model the
theorems T01_grow_vv / rv / ht / sp / nip are proved about (the proof obligation breaks).  Run on every check of C01."""
import os
import re
import sys
from fractions import Fraction

sys.path.insert(0, os.path.join(os.path.dirname(os.path.abspath(__file__)), "..", "lib"))
import vcommon as V

CMP = {"==": 0, ">=": 1, ">": 2, "<=": 3, "<": 4, "!=": 5}
OPS = r"(==|>=|<=|!=|>|<)"


class TranslateError(Exception):
    pass


def strip_comments(s):
    s = re.sub(r"/\*.*?\*/", "", s, flags=re.S)
    return re.sub(r"//[^\n]*", "", s)


def src(rel):
    return strip_comments(open(os.path.join(V.REPO, "src/xercesc", rel)).read())


def body(text, header_re, what):
    """the brace-balanced body of the function whose header matches header_re"""
    m = re.search(header_re, text, flags=re.S)
    if not m:
        raise TranslateError("%s: function header not found" % what)
    i = text.index("{", m.end() - 1)
    depth, j = 0, i
    while j < len(text):
        if text[j] == "{":
            depth += 1
        elif text[j] == "}":
            depth -= 1
            if depth == 0:
                return text[i:j + 1]
        j += 1
    raise TranslateError("%s: unbalanced braces" % what)


def need(m, what):
    if not m:
        raise TranslateError("%s not recognised" % what)
    return m


def frac(txt, what):
    f = Fraction(txt)
    if f.denominator > 64 or f <= 0:
        raise TranslateError("%s: factor %s not supported" % (what, txt))
    return f.numerator, f.denominator


def read_all():
    o = {}
    # ---- ValueVectorOf ------------------------------------------------------------------------------------------
    vv = src("util/ValueVectorOf.c")
    b = body(vv, r"ValueVectorOf<TElem>::\s*ensureExtraCapacity\s*\(const XMLSize_t length\)\s*\{", "ValueVectorOf::ensureExtraCapacity")
    need(re.search(r"XMLSize_t\s+newMax\s*=\s*fCurCount\s*\+\s*length\s*;", b), "ValueVectorOf: newMax = fCurCount + length")
    m = need(re.search(r"if\s*\(\s*newMax\s*%s\s*fMaxCount\s*\)" % OPS, b), "ValueVectorOf: grow test")
    o["vvGrowTest"] = CMP[m.group(1)]
    m = need(re.search(r"minNewMax\s*=\s*\(XMLSize_t\)\s*\(\s*\(double\)\s*fCurCount\s*\*\s*([0-9.]+)\s*\)", b), "ValueVectorOf: minNewMax")
    o["vvGrowNum"], o["vvGrowDen"] = frac(m.group(1), "ValueVectorOf")
    m = need(re.search(r"if\s*\(\s*newMax\s*%s\s*minNewMax\s*\)\s*newMax\s*=\s*minNewMax\s*;" % OPS, b), "ValueVectorOf: min test")
    o["vvMinTest"] = CMP[m.group(1)]
    need(re.search(r"allocate\s*\(\s*newMax\s*\*\s*sizeof\s*\(\s*TElem\s*\)\s*\)", b), "ValueVectorOf: allocation of newMax elements")
    need(re.search(r"for\s*\(\s*XMLSize_t\s+index\s*=\s*0\s*;\s*index\s*<\s*fCurCount\s*;\s*index\+\+\s*\)\s*newList\[index\]\s*=\s*fElemList\[index\]\s*;", b),
         "ValueVectorOf: copy loop 0..fCurCount-1")
    need(re.search(r"fMaxCount\s*=\s*newMax\s*;", b), "ValueVectorOf: fMaxCount = newMax")
    b = body(vv, r"ValueVectorOf<TElem>::\s*addElement\s*\(const TElem& toAdd\)\s*\{", "ValueVectorOf::addElement")
    m = need(re.search(r"ensureExtraCapacity\s*\(\s*(\d+)\s*\)\s*;\s*fElemList\[fCurCount\+\+\]\s*=\s*toAdd\s*;", b), "ValueVectorOf::addElement shape")
    o["vvAddExtra"] = int(m.group(1))
    b = body(vv, r"ValueVectorOf<TElem>::\s*insertElementAt\s*\(const TElem& toInsert, const XMLSize_t insertAt\)\s*\{", "ValueVectorOf::insertElementAt")
    m = need(re.search(r"if\s*\(\s*insertAt\s*%s\s*fCurCount\s*\)\s*ThrowXMLwithMemMgr" % OPS, b), "ValueVectorOf::insertElementAt bound test")
    o["vvInsTest"] = CMP[m.group(1)]
    m = need(re.search(r"ensureExtraCapacity\s*\(\s*(\d+)\s*\)\s*;\s*for\s*\(\s*XMLSize_t\s+index\s*=\s*fCurCount\s*;\s*index\s*>\s*insertAt\s*;\s*index--\s*\)\s*"
                       r"fElemList\[index\]\s*=\s*fElemList\[index-1\]\s*;", b), "ValueVectorOf::insertElementAt shift loop")
    o["vvInsExtra"] = int(m.group(1))
    # ---- BaseRefVectorOf ----------------------------------------------------------------------------------------
    rv = src("util/BaseRefVectorOf.c")
    b = body(rv, r"BaseRefVectorOf<TElem>::\s*ensureExtraCapacity\s*\(const XMLSize_t length\)\s*\{", "BaseRefVectorOf::ensureExtraCapacity")
    need(re.search(r"XMLSize_t\s+newMax\s*=\s*fCurCount\s*\+\s*length\s*;", b), "BaseRefVectorOf: newMax = fCurCount + length")
    m = need(re.search(r"if\s*\(\s*newMax\s*%s\s*fMaxCount\s*\)\s*return\s*;" % OPS, b), "BaseRefVectorOf: keep test")
    o["rvKeepTest"] = CMP[m.group(1)]
    m = need(re.search(r"if\s*\(\s*newMax\s*%s\s*fMaxCount\s*\+\s*fMaxCount\s*/\s*(\d+)\s*\)\s*newMax\s*=\s*fMaxCount\s*\+\s*fMaxCount\s*/\s*(\d+)\s*;" % OPS, b),
             "BaseRefVectorOf: half-again growth")
    if m.group(2) != m.group(3) or int(m.group(2)) == 0:
        raise TranslateError("BaseRefVectorOf: growth divisors differ")
    o["rvMinTest"] = CMP[m.group(1)]
    o["rvGrowDiv"] = int(m.group(2))
    need(re.search(r"allocate\s*\(\s*newMax\s*\*\s*sizeof\s*\(\s*TElem\s*\*\s*\)\s*\)", b), "BaseRefVectorOf: allocation of newMax elements")
    need(re.search(r"for\s*\(\s*;\s*index\s*<\s*fCurCount\s*;\s*index\+\+\s*\)\s*newList\[index\]\s*=\s*fElemList\[index\]\s*;\s*"
                   r"for\s*\(\s*;\s*index\s*<\s*newMax\s*;\s*index\+\+\s*\)\s*newList\[index\]\s*=\s*0\s*;", b), "BaseRefVectorOf: copy / zero loops")
    b = body(rv, r"BaseRefVectorOf<TElem>::\s*addElement\s*\(TElem\* const toAdd\)\s*\{", "BaseRefVectorOf::addElement")
    m = need(re.search(r"ensureExtraCapacity\s*\(\s*(\d+)\s*\)\s*;\s*fElemList\[fCurCount\]\s*=\s*toAdd\s*;\s*fCurCount\+\+\s*;", b), "BaseRefVectorOf::addElement shape")
    o["rvAddExtra"] = int(m.group(1))
    # ---- RefHashTableOf -----------------------------------------------------------------------------------------
    ht = src("util/RefHashTableOf.c")
    b = body(ht, r"RefHashTableOf<TVal, THasher>::put\s*\(void\* key, TVal\* const valueToAdopt\)\s*\{", "RefHashTableOf::put")
    m = need(re.search(r"threshold\s*=\s*fHashModulus\s*\*\s*(\d+)\s*/\s*(\d+)\s*;", b), "RefHashTableOf: load factor")
    o["htLoadNum"], o["htLoadDen"] = int(m.group(1)), int(m.group(2))
    m = need(re.search(r"if\s*\(\s*fCount\s*%s\s*threshold\s*\)\s*rehash\s*\(\s*\)\s*;" % OPS, b), "RefHashTableOf: rehash test")
    o["htLoadTest"] = CMP[m.group(1)]
    b = body(ht, r"RefHashTableOf<TVal, THasher>::rehash\s*\(\s*\)\s*\{", "RefHashTableOf::rehash")
    m = need(re.search(r"newMod\s*=\s*\(\s*fHashModulus\s*\*\s*(\d+)\s*\)\s*\+\s*(\d+)\s*;", b), "RefHashTableOf: new modulus")
    o["htRehashMul"], o["htRehashAdd"] = int(m.group(1)), int(m.group(2))
    need(re.search(r"allocate\s*\(\s*newMod\s*\*\s*sizeof", b), "RefHashTableOf::rehash allocation of newMod buckets")
    need(re.search(r"getHashVal\s*\(\s*curElem->fKey\s*,\s*newMod\s*\)", b), "RefHashTableOf::rehash hashes with newMod")
    need(re.search(r"fHashModulus\s*=\s*newMod\s*;", b), "RefHashTableOf::rehash stores newMod")
    b = body(ht, r"RefHashTableOf<TVal, THasher>::initialize\s*\(const XMLSize_t modulus\)\s*\{", "RefHashTableOf::initialize")
    need(re.search(r"if\s*\(\s*modulus\s*==\s*0\s*\)\s*ThrowXMLwithMemMgr", b), "RefHashTableOf::initialize zero-modulus test")
    # ---- XMLStringPool ------------------------------------------------------------------------------------------
    sp = src("util/StringPool.cpp")
    caps = set(re.findall(r"fMapCapacity\s*\(\s*(\d+)\s*\)", sp))
    ids = set(re.findall(r"fCurId\s*\(\s*(\d+)\s*\)", sp))
    if len(caps) != 1 or len(ids) != 1:
        raise TranslateError("XMLStringPool: initial fMapCapacity / fCurId not unique: %r %r" % (caps, ids))
    o["spInitCap"], o["spInitId"] = int(caps.pop()), int(ids.pop())
    b = body(sp, r"XMLStringPool::addNewEntry\s*\(const XMLCh\* const newString\)\s*\{", "XMLStringPool::addNewEntry")
    m = need(re.search(r"if\s*\(\s*fCurId\s*%s\s*fMapCapacity\s*\)" % OPS, b), "XMLStringPool: grow test")
    o["spGrowTest"] = CMP[m.group(1)]
    m = need(re.search(r"newCap\s*=\s*\(unsigned int\)\s*\(\s*fMapCapacity\s*\*\s*([0-9.]+)\s*\)", b), "XMLStringPool: growth factor")
    o["spGrowNum"], o["spGrowDen"] = frac(m.group(1), "XMLStringPool")
    need(re.search(r"allocate\s*\(\s*newCap\s*\*\s*sizeof", b), "XMLStringPool: allocation of newCap entries")
    need(re.search(r"if\s*\(\s*fCurId.*?fMapCapacity\s*=\s*newCap\s*;.*?fIdMap\[fCurId\]\s*=\s*newElem\s*;.*?fCurId\+\+\s*;", b, flags=re.S),
         "XMLStringPool: test / store at fCurId / increment order")
    # ---- NameIdPool ---------------------------------------------------------------------------------------------
    ni = src("util/NameIdPool.c")
    m = need(re.search(r"if\s*\(\s*!fIdPtrsCount\s*\)\s*fIdPtrsCount\s*=\s*(\d+)\s*;", ni), "NameIdPool: default initial size")
    o["nipDefault"] = int(m.group(1))
    b = body(ni, r"NameIdPool<TElem>::put\s*\(TElem\* const elemToAdopt\)\s*\{", "NameIdPool::put")
    m = need(re.search(r"if\s*\(\s*fIdCounter\s*\+\s*(\d+)\s*%s\s*fIdPtrsCount\s*\)" % OPS, b), "NameIdPool: grow test")
    o["nipTestAdd"], o["nipGrowTest"] = int(m.group(1)), CMP[m.group(2)]
    m = need(re.search(r"newCount\s*=\s*\(XMLSize_t\)\s*\(\s*fIdPtrsCount\s*\*\s*([0-9.]+)\s*\)", b), "NameIdPool: growth factor")
    o["nipGrowNum"], o["nipGrowDen"] = frac(m.group(1), "NameIdPool")
    need(re.search(r"allocate\s*\(\s*newCount\s*\*\s*sizeof", b), "NameIdPool: allocation of newCount entries")
    need(re.search(r"fIdPtrsCount\s*=\s*newCount\s*;\s*\}\s*const XMLSize_t retId\s*=\s*\+\+fIdCounter\s*;\s*fIdPtrs\[retId\]\s*=\s*elemToAdopt\s*;", b),
         "NameIdPool: store at ++fIdCounter after the test")
    # call sites of the parser (the deserialiser XTemplateSerializer passes a stored size: not a parse path)
    sizes = []
    for root, _, files in os.walk(os.path.join(V.REPO, "src/xercesc")):
        for fn in sorted(files):
            if not fn.endswith((".cpp", ".hpp", ".c")) or fn.startswith(("NameIdPool", "XTemplateSerializer")):
                continue
            t = strip_comments(open(os.path.join(root, fn), errors="replace").read())
            for mm in re.finditer(r"NameIdPool<\s*\w+\s*>\s*\(\s*([^,()]+)\s*,\s*([^,()]+?)\s*[,)]", t):
                a = mm.group(2).strip()
                if not re.fullmatch(r"\d+", a):
                    raise TranslateError("NameIdPool call site in %s with a non-literal initial size %r" % (fn, a))
                sizes.append(int(a))
    if not sizes:
        raise TranslateError("no NameIdPool<..>(modulus, initSize) call site found")
    o["nipCallSizes"] = sorted(set(sizes))
    return o


def generate():
    o = read_all()
    out = ("(* GENERATED by translator/c01_grow.py from src/xercesc/util/{ValueVectorOf.c,BaseRefVectorOf.c,RefHashTableOf.c,\n"
           "   StringPool.cpp,NameIdPool.c} and the NameIdPool call sites -- do not edit; regenerated on every check of C01.\n"
           "   comparison codes: 0 ==, 1 >=, 2 >, 3 <=, 4 <, 5 != *)\n"
           "From Coq Require Import NArith List.\nImport ListNotations.\nLocal Open Scope N_scope.\n\n")
    for k in sorted(o):
        if isinstance(o[k], list):
            out += "Definition %s : list N := [%s].\n" % (k, "; ".join(str(x) for x in o[k]))
        else:
            out += "Definition %s : N := %d.\n" % (k, o[k])
    V.write_if_changed(os.path.join(V.COQ, "theories", "Gen", "GenC01Grow.v"), out)
    return o


if __name__ == "__main__":
    print(generate())
