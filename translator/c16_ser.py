#!/usr/bin/env python3
"""T-ser: reads every `void X::serialize(XSerializeEngine&)` body of /repo/src/xercesc and emits, per class, the
ordered list of engine actions of the store direction and of the load direction
   coq/theories/Gen/GenSerialize.v     (Definition ser_classes : list centry, ser_level, ser_bufsize ...)
   coq/theories/Gen/GenSerializeObl.v  (one Lemma per class: its obligation, closed by vm_compute)
   gen/C16-serialize.json              (sidecar: names, files, readable action lists, unparsed items)
Reading = comment stripping + a small statement parser (blocks, if/else chains, loops, switch) + regexes for the engine
calls; the C++ type of `x` in `serEng<<x` is looked up in casts, local declarations, file-level constants and the member
declarations of the class and its bases.  Nothing is dropped silently: whatever mentions the engine variable and is not
recognised lands in `unparsed` and makes the class "correspondence only"."""
import glob
import json
import os
import re
import sys

sys.path.insert(0, os.path.join(os.path.dirname(os.path.dirname(os.path.abspath(__file__))), "lib"))
import vcommon as V  # noqa

SRC = os.path.join(V.REPO, "src", "xercesc")

W1 = {"bool", "XMLByte", "char", "unsigned char", "signed char"}
W2 = {"XMLCh", "short", "unsigned short", "XMLInt16", "XMLUInt16"}
W4 = {"int", "unsigned int", "unsigned", "float", "XMLInt32", "XMLUInt32", "XSerializedObjectId_t"}
W8 = {"long", "unsigned long", "double", "XMLSize_t", "size_t", "XMLSSize_t"}
BENIGN = ("getMemoryManager", "getGrammarPool", "getStringPool", "isStoring", "isLoading", "getStorerLevel")


def strip_comments(t):
    t = re.sub(r"/\*.*?\*/", lambda m: re.sub(r"[^\n]", " ", m.group(0)), t, flags=re.S)
    t = re.sub(r"//[^\n]*", "", t)
    return t


def match_brace(t, i, op="{", cl="}"):
    d = 0
    j = i
    while j < len(t):
        if t[j] == op:
            d += 1
        elif t[j] == cl:
            d -= 1
            if d == 0:
                return j
        j += 1
    raise ValueError("unbalanced")


# ------------------------------------------------------------------------------------------------------------
# header index: classes, their bases and member declarations; enum names
# ------------------------------------------------------------------------------------------------------------
class Index:
    def __init__(self):
        self.classes = {}      # name -> {"bases": [...], "members": {name: type}, "file": ...}
        self.enums = set()
        self.typedefs = {}
        for f in sorted(glob.glob(os.path.join(SRC, "**", "*.hpp"), recursive=True)):
            try:
                t = strip_comments(open(f, errors="replace").read())
            except OSError:
                continue
            for m in re.finditer(r"\benum\s+(\w+)", t):
                self.enums.add(m.group(1))
            for m in re.finditer(r"\btypedef\s+(\w+\s*<[^;{}]+>)\s+(\w+)\s*;", t):
                self.typedefs[m.group(2)] = re.sub(r"\s+", "", m.group(1))
            for m in re.finditer(r"\bclass\s+(?:[A-Z_]+_EXPORT\s+|[A-Z]+_EXPORT\s+)?(\w+)\s*(?::\s*([^{;]*?))?\s*\{", t):
                name = m.group(1)
                try:
                    end = match_brace(t, m.end() - 1)
                except ValueError:
                    continue
                body = t[m.end():end]
                bases = []
                if m.group(2):
                    for b in m.group(2).split(","):
                        b = re.sub(r"\b(public|protected|private|virtual)\b", "", b).strip()
                        b = re.sub(r"<.*>", "", b)
                        if b:
                            bases.append(b.split("::")[-1])
                if name not in self.classes or len(body) > self.classes[name]["len"]:
                    self.classes[name] = {"bases": bases, "members": self.members(body), "file": f, "len": len(body)}

    @staticmethod
    def members(body):
        # drop nested braces (inline function bodies, nested classes/enums)
        out = []
        d = 0
        for c in body:
            if c == "{":
                d += 1
            elif c == "}":
                d -= 1
                out.append(";")
            elif d == 0:
                out.append(c)
        flat = "".join(out)
        mem = {}
        for st in flat.split(";"):
            st = " ".join(st.split())
            st = re.sub(r"^(public|private|protected)\s*:\s*", "", st)
            st = re.sub(r"^(public|private|protected)\s*:\s*", "", st)
            if "(" in st or not st or len(st) > 300 or st.startswith(("friend", "typedef", "using", "enum", "class", "struct")):
                continue
            m = re.match(r"^(.*?)\b(\w+)\s*(\[[^\]]*\])?$", st)
            if not m or not re.match(r"^[\w:<>,\s\*&]+$", m.group(1)) or ":" in m.group(1).replace("::", ""):
                continue
            ty = m.group(1).strip()
            ty = re.sub(r"\b(static|mutable|const|volatile)\b", "", ty)
            ty = " ".join(ty.split()).replace(" *", "*").replace("* ", "*").replace(" <", "<")
            if not ty:
                continue
            mem[m.group(2)] = (ty, bool(m.group(3)))
        return mem

    def lookup(self, cls, name, depth=0):
        c = self.classes.get(cls)
        if not c or depth > 8:
            return None
        if name in c["members"]:
            return c["members"][name]
        for b in c["bases"]:
            r = self.lookup(b, name, depth + 1)
            if r:
                return r
        return None


# ------------------------------------------------------------------------------------------------------------
# statement parser
# ------------------------------------------------------------------------------------------------------------
def skip_ws(t, i):
    while i < len(t) and t[i].isspace():
        i += 1
    return i


def parse_stmt(t, i):
    """returns (node, next index); node = ('block',[..]) | ('if',cond,then,else) | ('loop',hdr,body) |
    ('switch',cond,[(label,[stmts])]) | ('simple',text)"""
    i = skip_ws(t, i)
    if i >= len(t):
        return None, i
    if t[i] == "{":
        j = match_brace(t, i)
        return ("block", parse_block(t[i + 1:j])), j + 1
    m = re.match(r"(if|for|while|switch)\s*\(", t[i:])
    if m:
        kw = m.group(1)
        p = i + m.end() - 1
        q = match_brace(t, p, "(", ")")
        cond = t[p + 1:q]
        if kw == "switch":
            k = skip_ws(t, q + 1)
            j = match_brace(t, k)
            return ("switch", cond, parse_cases(t[k + 1:j])), j + 1
        body, nxt = parse_stmt(t, q + 1)
        if kw == "if":
            k = skip_ws(t, nxt)
            if re.match(r"else\b", t[k:]):
                els, nxt2 = parse_stmt(t, k + 4)
                return ("if", cond, body, els), nxt2
            return ("if", cond, body, None), nxt
        return ("loop", cond, body), nxt
    if re.match(r"do\b", t[i:]):
        body, nxt = parse_stmt(t, i + 2)
        k = t.index(";", nxt)
        return ("loop", t[nxt:k], body), k + 1
    # simple statement up to ';' at paren depth 0
    d = 0
    j = i
    while j < len(t):
        if t[j] in "([":
            d += 1
        elif t[j] in ")]":
            d -= 1
        elif t[j] == ";" and d == 0:
            break
        j += 1
    return ("simple", t[i:j].strip()), j + 1


def parse_block(t):
    out = []
    i = 0
    while True:
        n, i = parse_stmt(t, i)
        if n is None:
            break
        out.append(n)
    return out


def parse_cases(t):
    """switch body -> [(label, [stmts])]; statements after a label up to the next label"""
    parts = re.split(r"\b(case\s+[^:]+:|default\s*:)(?!:)", t)
    cases = []
    k = 1
    while k < len(parts):
        cases.append((parts[k].strip(), parse_block(parts[k + 1])))
        k += 2
    return cases


# ------------------------------------------------------------------------------------------------------------
# actions
# ------------------------------------------------------------------------------------------------------------
class Reader:
    def __init__(self, idx):
        self.idx = idx
        self.tmpl = {}      # container signature -> id
        self.helpers = {}   # helper name -> id
        self.cls_ids = {}   # class name -> id

    def cid(self, name):
        name = name.split("::")[-1]
        if name not in self.cls_ids:
            self.cls_ids[name] = len(self.cls_ids) + 1
        return self.cls_ids[name]

    def type_of(self, expr, ctx):
        """C++ type of an operand expression; returns a type string or None"""
        e = expr.strip()
        m = re.match(r"^\(\s*([\w:\s]+?)\s*&?\s*\)\s*(.+)$", e)     # (int)x, (unsigned long&)x, (int)(..)
        if m and re.match(r"^[\w:\s]+$", m.group(1)) and not re.match(r"^\w+$", e):
            return " ".join(m.group(1).split()).split("::")[-1] if "::" in m.group(1) else " ".join(m.group(1).split())
        if ctx.get("elem_type") and re.match(r"^\(?\*?\w+\)?\s*->\s*elementAt\s*\(", e):
            return ctx["elem_type"]
        m = re.match(r"^(\w+)\s*(\[.*\])?$", e)
        if m:
            name = m.group(1)
            if re.match(r"^\d+$", name):
                return "int"
            for scope in (ctx["locals"], ctx["filevars"]):
                if name in scope:
                    return scope[name]
            r = self.idx.lookup(ctx["cls"], name)
            if r:
                return r[0]
        return None

    def wire_of_type(self, ty):
        if ty is None:
            return ("prim", "WUnknown", "?")
        ty = ty.strip().rstrip("&").strip()
        if ty.endswith("*"):
            return ("obj", ty[:-1].strip(), ty)
        base = ty.split("::")[-1]
        if ty in W1 or base in W1:
            return ("prim", "W1", ty)
        if ty in W2 or base in W2:
            return ("prim", "W2", ty)
        if ty in W4 or base in W4:
            return ("prim", "W4", ty)
        if ty in W8 or base in W8:
            return ("prim", "W8", ty)
        if base in self.idx.enums:
            return ("prim", "W4", ty + " (enum)")
        return ("prim", "WUnknown", ty)

    def locals_of(self, body):
        loc = {}
        for m in re.finditer(r"(?:^|(?<=[;{}:]))\s*((?:unsigned\s+|const\s+)?[\w:]+(?:\s*<[^;]*?>)?\s*[\*&]*)\s+(\w+)\s*(?:=[^;]*)?;", body):
            ty = re.sub(r"\bconst\b", "", m.group(1)).strip().replace(" *", "*")
            if ty in ("return", "delete", "else", "new"):
                continue
            loc[m.group(2)] = ty
        return loc

    def simple_actions(self, text, ctx, store):
        """actions of one simple statement, in textual order"""
        eng = ctx["eng"]
        acts = []
        if not re.search(r"\b%s\b" % eng, text):
            return acts
        found = []   # (pos, action dict)
        covered = []
        # operator chains
        for m in re.finditer(r"\b%s\s*(<<|>>)" % eng, text):
            p = m.end()
            opr = m.group(1)
            while True:
                d = 0
                j = p
                while j < len(text):
                    if text[j] in "([":
                        d += 1
                    elif text[j] in ")]":
                        d -= 1
                    elif d == 0 and text.startswith(opr, j):
                        break
                    j += 1
                operand = text[p:j].strip()
                kind = self.wire_of_type(self.type_of(operand, ctx))
                if kind[0] == "obj":
                    found.append((p, {"a": "AObj", "cls": kind[1].split("::")[-1], "field": operand, "type": kind[2]}))
                elif "keyvars" in ctx:
                    # container helper: a primitive that is one of the entry's keys carries its key position
                    v = re.sub(r"^\(.*?\)\s*", "", operand)
                    pos = ctx["keyvars"].get(v, 1 if "elementAt(" in operand else 0)
                    found.append((p, {"a": "AKey", "wire": kind[1], "pos": pos, "field": operand, "type": kind[2]}))
                else:
                    found.append((p, {"a": "APrim", "wire": kind[1], "field": operand, "type": kind[2]}))
                if (opr == "<<") != store:
                    ctx["unparsed"].append("direction mismatch: %s" % text)
                if j >= len(text):
                    break
                p = j + 2
            covered.append((m.start(), len(text)))
        for m in re.finditer(r"\b%s\s*\.\s*(\w+)\s*\(" % eng, text):
            fn = m.group(1)
            q = match_brace(text, m.end() - 1, "(", ")")
            args = [a.strip() for a in split_args(text[m.end():q])]
            if fn in ("writeString", "readString"):
                withbuf = any("BufferLen" in a for a in args)
                found.append((m.start(), {"a": "AStr", "withbuf": withbuf, "field": args[0]}))
            elif fn in ("write", "read") and len(args) == 2:
                found.append((m.start(), {"a": "ARaw", "field": args[0]}))
            elif fn in ("writeSize", "readSize", "writeInt64", "readInt64", "writeUInt64", "readUInt64"):
                found.append((m.start(), {"a": "APrim", "wire": "WS", "field": args[0], "type": fn[fn.index("e") + 1:] if fn.startswith("write") else fn[4:]}))
            elif fn in BENIGN:
                continue
            elif fn == "registerObject" and "keyvars" in ctx and not store:
                ctx["registered"] = ctx.get("registered", 0) + 1
                continue
            elif fn in ("lookupStorePool", "lookupLoadPool") and "keyvars" in ctx:
                continue        # pool queries of the annotation table: no wire action
            else:
                ctx["unparsed"].append("unknown engine call %s in: %s" % (fn, text))
                continue
            if (fn.startswith("write")) != store and fn not in BENIGN:
                ctx["unparsed"].append("direction mismatch: %s" % text)
        for m in re.finditer(r"(?:XTemplateSerializer\s*::\s*|(?<![\w:>.]))(storeObject|loadObject)\s*\(", text):
            q = match_brace(text, m.end() - 1, "(", ")")
            args = [a.strip() for a in split_args(text[m.end():q])]
            var = args[0].lstrip("&").strip()
            var = re.sub(r"^\(.*?\)\s*", "", var)
            r = self.idx.lookup(ctx["cls"], var) or ((ctx["locals"].get(var), False) if var in ctx["locals"] else None)
            sig = r[0].rstrip("*").strip() if r else "?" + var
            sig = re.sub(r"\s+", "", sig).replace("xercesc::", "").replace("XERCES_CPP_NAMESPACE_QUALIFIER", "")
            sig = re.sub(r"^(\w+)$", lambda mm: self.idx.typedefs.get(mm.group(1), mm.group(1)), sig)
            sig = re.sub(r"<(\w+)>", lambda mm: "<" + self.idx.typedefs.get(mm.group(1), mm.group(1)) + ">", sig) if False else sig
            found.append((m.start(), {"a": "ATmpl", "sig": sig, "field": var}))
            if (m.group(1) == "storeObject") != store:
                ctx["unparsed"].append("direction mismatch: %s" % text)
        for m in re.finditer(r"\b((?:\w+\s*::\s*)?)(store|load)([A-Z]\w*)\s*\(", text):
            if "XTemplateSerializer" in m.group(1) or m.group(3) == "Object":
                continue
            q = match_brace(text, m.end() - 1, "(", ")")
            if not re.search(r"\b%s\b" % eng, text[m.end():q]):
                continue
            if m.group(2) == "load" and m.group(3) == "Number" and "XMLNumber" in m.group(1):
                # XMLNumber::loadNumber(type, serEng) dispatches to the typed operator>> of XMLBigDecimal/XMLFloat/...: the
                # load-side form of `serEng << (XMLNumber*) p`
                found.append((m.start(), {"a": "AObj", "cls": "XMLNumber", "field": "loadNumber(...)", "type": "XMLNumber* (dispatch)"}))
                continue
            found.append((m.start(), {"a": "AHelper", "name": m.group(3), "field": text[m.end():q].strip()}))
            if (m.group(2) == "store") != store:
                ctx["unparsed"].append("direction mismatch: %s" % text)
        for m in re.finditer(r"([\w\.\->:]+?)\s*(::|\.|->)\s*serialize\s*\(\s*%s\s*\)" % eng, text):
            target, sep = m.group(1), m.group(2)
            if sep == "::":
                found.append((m.start(), {"a": "ABase", "cls": target.split("::")[-1]}))
            else:
                r = self.idx.lookup(ctx["cls"], target)
                ty = r[0].rstrip("*").strip() if r else "?" + target
                found.append((m.start(), {"a": "AMember", "cls": ty.split("::")[-1], "field": target}))
        if not found:
            rest = re.sub(r"\b%s\s*\.\s*(%s)\s*\(\s*\)" % (eng, "|".join(BENIGN)), "", text)
            if "keyvars" in ctx:
                rest = re.sub(r"\b%s\s*\.\s*(registerObject|lookupStorePool|lookupLoadPool)\s*\(" % eng, "(", rest)
            if re.search(r"\b%s\b" % eng, rest):
                ctx["unparsed"].append("unrecognised use of the engine: %s" % text)
        found.sort(key=lambda x: x[0])
        return [f[1] for f in found]

    def walk(self, node, ctx, store):
        """-> list of tree items: action dict | ('br', [alts]) | ('loop', [items])"""
        kind = node[0]
        if kind == "block":
            out = []
            for s in node[1]:
                out += self.walk(s, ctx, store)
            return out
        if kind == "simple":
            if re.match(r"return\b", node[1]):
                ctx["returns"] += 1
            return self.simple_actions(node[1], ctx, store)
        if kind == "if":
            cond = node[1]
            eng = ctx["eng"]
            m = re.match(r"^\s*(!?)\s*%s\s*\.\s*(isStoring|isLoading)\s*\(\s*\)\s*$" % eng, cond)
            if m:
                want_store = (m.group(2) == "isStoring") != (m.group(1) == "!")
                if want_store == store:
                    return self.walk(node[2], ctx, store)
                return self.walk(node[3], ctx, store) if node[3] else []
            pre = []
            mt = re.match(r"^\s*%s\s*\.\s*needTo(Store|Load)Object\s*\(.*\)\s*$" % eng, cond, re.S)
            if mt and "keyvars" in ctx and (mt.group(1) == "Store") == store:
                pre = [{"a": "ATag"}]          # null tag / back reference / template tag
            elif re.search(r"\b%s\b" % eng, cond) and not ("keyvars" in ctx and re.search(r"%s\s*\.\s*fGrammarPool\s*->\s*get\w+\(\)" % eng, cond)):
                ctx["unparsed"].append("engine used in condition: %s" % cond)
            if pre:
                body = self.walk(node[2], ctx, store)
                els0 = self.walk(node[3], ctx, store) if node[3] is not None else []
                return pre + [("br", [body, els0])]
            alts = [self.walk(node[2], ctx, store)]
            els = node[3]
            while els is not None and els[0] == "if" and not re.search(r"isStoring|isLoading", els[1]):
                alts.append(self.walk(els[2], ctx, store))
                els = els[3]
            alts.append(self.walk(els, ctx, store) if els is not None else [])
            if all(not a for a in alts):
                return []
            return [("br", alts)]
        if kind == "loop":
            body = self.walk(node[2], ctx, store) if node[2] else []
            return [("loop", body)] if body else []
        if kind == "switch":
            alts = [sum((self.walk(s, ctx, store) for s in stmts), []) for _, stmts in node[2]]
            if all(not a for a in alts):
                return []
            return [("br", alts)]
        return []


def split_args(s):
    out, d, cur = [], 0, ""
    prev = ""
    for c in s:
        if c in "([<":
            d += 1
        elif c in ")]" or (c == ">" and prev != "-"):
            d -= 1
        prev = c
        if c == "," and d == 0:
            out.append(cur)
            cur = ""
        else:
            cur += c
    if cur.strip():
        out.append(cur)
    return out


def key_of(item):
    """wire-level key of a tree item (used for hoisting common prefixes and for printing)"""
    if isinstance(item, tuple):
        return (item[0], tuple(tuple(key_of(x) for x in alt) for alt in item[1]) if item[0] == "br"
                else tuple(key_of(x) for x in item[1]))
    a = item["a"]
    if a == "APrim":
        return (a, item["wire"])
    if a == "AKey":
        return (a, item["wire"], item["pos"])
    if a == "AStr":
        return (a, item["withbuf"])
    if a in ("AObj", "ABase", "AMember"):
        return (a, item["cls"])
    if a == "ATmpl":
        return (a, item["sig"])
    if a == "AHelper":
        return (a, item["name"])
    return (a,)


def normalise(items):
    """hoist an action that opens every alternative of a branch in front of the branch (the store side writes a
    discriminating flag inside each alternative, the load side reads it once before testing it); recurse"""
    out = []
    for it in items:
        if isinstance(it, tuple) and it[0] == "br":
            alts = [normalise(a) for a in it[1]]
            while all(alts) and all(a and key_of(a[0]) == key_of(alts[0][0]) and not isinstance(a[0], tuple) for a in alts):
                out.append(alts[0][0])
                alts = [a[1:] for a in alts]
            # alternatives are compared as an ordered list after removing duplicates of the empty alternative at the end
            if alts and all(alts) and all([key_of(x) for x in a] == [key_of(x) for x in alts[0]] for a in alts):
                out += alts[0]          # every alternative transfers the same items (e.g. read-and-discard vs read-and-keep)
            elif any(alts):
                out.append(("br", alts))
        elif isinstance(it, tuple) and it[0] == "loop":
            out.append(("loop", normalise(it[1])))
        else:
            out.append(it)
    return out


def flatten(items, rd):
    """tree -> flat Coq action terms + readable strings"""
    coq, txt = [], []
    for it in items:
        if isinstance(it, tuple) and it[0] == "br":
            coq.append("ABrOpen"); txt.append("if{")
            # alternatives sorted by their wire key so that `if a / else b` and `if !a b / else a` agree
            alts = sorted(it[1], key=lambda a: repr([key_of(x) for x in a]))
            for n, alt in enumerate(alts):
                if n:
                    coq.append("ABrAlt"); txt.append("|")
                c, s = flatten(alt, rd)
                coq += c; txt += s
            coq.append("ABrClose"); txt.append("}")
        elif isinstance(it, tuple):
            coq.append("ALoopOpen"); txt.append("loop{")
            c, s = flatten(it[1], rd)
            coq += c; txt += s
            coq.append("ALoopClose"); txt.append("}")
        else:
            a = it["a"]
            if a == "APrim":
                coq.append("APrim %s" % it["wire"]); txt.append("%s:%s[%s]" % (it["wire"], it["field"], it["type"]))
            elif a == "ATag":
                coq.append("ATag"); txt.append("tag")
            elif a == "AKey":
                coq.append("AKey %s %d" % (it["wire"], it["pos"])); txt.append("%s@key%d:%s[%s]" % (it["wire"], it["pos"], it["field"], it["type"]))
            elif a == "AStr":
                coq.append("AStr %s" % ("true" if it["withbuf"] else "false")); txt.append("str%s:%s" % ("+buflen" if it["withbuf"] else "", it["field"]))
            elif a == "ARaw":
                coq.append("ARaw"); txt.append("raw:%s" % it["field"])
            elif a == "AObj":
                coq.append("AObj %d" % rd.cid(it["cls"])); txt.append("obj<%s>:%s" % (it["cls"], it["field"]))
            elif a == "AHelper":
                if it["name"] not in rd.helpers:
                    rd.helpers[it["name"]] = len(rd.helpers) + 1
                coq.append("AHelper %d" % rd.helpers[it["name"]]); txt.append("helper<%s>" % it["name"])
            elif a == "ATmpl":
                if it["sig"] not in rd.tmpl:
                    rd.tmpl[it["sig"]] = len(rd.tmpl) + 1
                coq.append("ATmpl %d" % rd.tmpl[it["sig"]]); txt.append("tmpl<%s>:%s" % (it["sig"], it["field"]))
            elif a == "ABase":
                coq.append("ABase %d" % rd.cid(it["cls"])); txt.append("base<%s>" % it["cls"])
            elif a == "AMember":
                coq.append("AMember %d" % rd.cid(it["cls"])); txt.append("member<%s>:%s" % (it["cls"], it["field"]))
    return coq, txt


def read_level():
    t = open(os.path.join(V.REPO, "configure.ac")).read()
    m = re.search(r"^GRAMMAR_SERIALIZATION_LEVEL=(\d+)", t, re.M)
    if not m:
        raise ValueError("GRAMMAR_SERIALIZATION_LEVEL not found in configure.ac")
    return int(m.group(1))


def read_bufsize():
    t = open(os.path.join(SRC, "internal", "XSerializeEngine.hpp")).read()
    vals = set(re.findall(r"bufSize\s*=\s*(\d+)", t))
    if len(vals) != 1:
        raise ValueError("default bufSize not unique: %s" % vals)
    return int(vals.pop())


def scan():
    idx = Index()
    rd = Reader(idx)
    files = []
    for f in sorted(glob.glob(os.path.join(SRC, "**", "*.[ch]pp"), recursive=True)):
        try:
            raw = open(f, errors="replace").read()
        except OSError:
            continue
        if "::serialize" in raw and "XSerializeEngine" in raw:
            files.append((f, raw))
    classes = []
    for f, raw in files:
        t = strip_comments(raw)
        creat = set(re.findall(r"IMPL_XSERIALIZABLE_TOCREATE\s*\(\s*(\w+)\s*\)", t))
        nocreat = set(re.findall(r"IMPL_XSERIALIZABLE_NOCREATE\s*\(\s*(\w+)\s*\)", t))
        filevars = {}
        for m in re.finditer(r"(?:static\s+)?const\s+((?:unsigned\s+)?\w+)\s+(\w+)\s*=", t):
            filevars[m.group(2)] = m.group(1)
        for m in re.finditer(r"\bvoid\s+(\w+)\s*::\s*serialize\s*\(\s*XSerializeEngine\s*&\s*(\w*)\s*\)", t):
            cls, eng = m.group(1), m.group(2) or "__noeng__"
            i = t.index("{", m.end())
            j = match_brace(t, i)
            body = t[i + 1:j]
            line = raw.count("\n", 0, m.start()) + 1
            entry = {"name": cls, "file": os.path.relpath(f, V.REPO), "line": line,
                     "creatable": cls in creat, "declared_nocreate": cls in nocreat, "unparsed": []}
            tree = parse_block(body)
            for store in (True, False):
                ctx = {"cls": cls, "eng": eng, "locals": rd.locals_of(body), "filevars": filevars, "unparsed": [],
                       "returns": 0}
                items = normalise(rd.walk(("block", tree), ctx, store))
                entry["store_tree" if store else "load_tree"] = items
                entry["unparsed"] += [u for u in ctx["unparsed"] if u not in entry["unparsed"]]
                if ctx["returns"]:
                    entry["unparsed"].append("return statement inside serialize()")
            classes.append(entry)
    # ids: classes with a serialize() first, in file order
    for c in classes:
        rd.cid(c["name"])
    for c in classes:
        c["id"] = rd.cid(c["name"])
        c["store_coq"], c["store"] = flatten(c.pop("store_tree"), rd)
        c["load_coq"], c["load"] = flatten(c.pop("load_tree"), rd)
        unknown = [s for s in c["store"] + c["load"] if s.startswith("WUnknown")]
        c["unknown_types"] = unknown
    return rd, classes


def crc(s):
    import zlib
    return zlib.crc32(re.sub(r"\s+", "", s).encode()) % 1000000007


def scan_containers(rd):
    """the storeObject/loadObject overload pairs of XTemplateSerializer.cpp, matched by the container type of their
    first parameter: action lists of both bodies (tag, modulus/count, per-entry fields with the position of stored keys
    in the enumerator's key tuple resp. in the insertion call) and the insertion call of the load side"""
    f = os.path.join(SRC, "internal", "XTemplateSerializer.cpp")
    raw = open(f, errors="replace").read()
    defined = bool(re.search(r"^\s*#\s*define\s+XERCES_DEBUG_SORT_GRAMMAR", raw, re.M))
    keep, stack, lines = True, [], []
    for ln in raw.split("\n"):
        s = ln.strip()
        if re.match(r"#\s*ifdef\s+XERCES_DEBUG_SORT_GRAMMAR", s):
            stack.append(keep); keep = keep and defined; lines.append(""); continue
        if stack and re.match(r"#\s*else", s):
            keep = stack[-1] and not defined; lines.append(""); continue
        if stack and re.match(r"#\s*endif", s):
            keep = stack.pop(); lines.append(""); continue
        if re.match(r"#\s*if", s) and stack:
            raise ValueError("nested preprocessor conditional inside XERCES_DEBUG_SORT_GRAMMAR")
        lines.append(ln if keep else "")
    src = "\n".join(lines)
    t = strip_comments(src)
    fns = {}
    for m in re.finditer(r"\bvoid\s+XTemplateSerializer\s*::\s*(storeObject|loadObject)\s*\(", t):
        q = match_brace(t, m.end() - 1, "(", ")")
        params = t[m.end():q]
        first = split_args(params)[0]
        sig = re.sub(r"\bconst\b|\b\w+\s*$", "", first)
        sig = re.sub(r"\s+", "", sig)
        sig = re.sub(r"\*{1,2}$", "", sig)
        eng = re.search(r"XSerializeEngine\s*&\s*(\w+)", params)
        i = t.index("{", q)
        j = match_brace(t, i)
        fns.setdefault(sig, {})[m.group(1)] = (t[i + 1:j], eng.group(1) if eng else "serEng", t.count("\n", 0, m.start()) + 1,
                                               re.search(r"(\w+)\s*$", first).group(1))
    out = []
    for sig in sorted(fns):
        pair = fns[sig]
        e = {"sig": sig, "unparsed": [], "line": min(v[2] for v in pair.values())}
        if set(pair) != {"storeObject", "loadObject"}:
            e["unparsed"].append("unpaired: only %s" % sorted(pair))
        elem = re.search(r"<\s*(.*)>", sig)
        elem_type = None
        if elem and sig.startswith("ValueVectorOf"):
            et = elem.group(1)
            elem_type = {"unsignedint": "unsigned int"}.get(et, et)
        for name in ("storeObject", "loadObject"):
            if name not in pair:
                e[name[:-6] + "_tree"] = []
                continue
            body, eng, line, var = pair[name]
            store = name == "storeObject"
            keyvars = {}
            if store:
                for m in re.finditer(r"nextElementKey\s*\(([^()]*)\)", body):
                    for k, a in enumerate(split_args(m.group(1))):
                        keyvars[a.strip()] = k + 1
                for m in re.finditer(r"(\w+)\s*=\s*\(?\*?\w+\)?\s*->\s*elementAt\s*\(", body):
                    keyvars[m.group(1)] = 1
            else:
                ins = []
                for m in re.finditer(r"->\s*(put|addElement|setElementAt|insertElementAt)\s*\(", body):
                    q = match_brace(body, m.end() - 1, "(", ")")
                    args = [a.strip() for a in split_args(body[m.end():q])]
                    for k, a in enumerate(args):
                        a = re.sub(r"^\(.*?\)\s*", "", a)
                        if re.match(r"^\w+$", a):
                            keyvars.setdefault(a, k + 1)
                    call = [m.group(1)] + args
                    for a in args:       # where a key variable comes from is part of the reviewed signature
                        v = re.sub(r"^\(.*?\)\s*", "", a)
                        if re.match(r"^\w+$", v):
                            for am in re.finditer(r"\b%s\s*=\s*([^;=][^;]*);" % v, body):
                                call.append("%s=%s" % (v, " ".join(am.group(1).split())))
                    ins.append(call)
                e["insert"] = ins
            ctx = {"cls": "XTemplateSerializer", "eng": eng, "locals": rd.locals_of(body), "filevars": {}, "unparsed": [],
                   "returns": 0, "keyvars": keyvars, "elem_type": elem_type}
            items = normalise(rd.walk(("block", parse_block(body)), ctx, store))
            e[name[:-6] + "_tree"] = items
            e["unparsed"] += ctx["unparsed"]
            if not store and ctx.get("registered", 0) != 1:
                e["unparsed"].append("loadObject does not register the container exactly once")
        out.append(e)
    def narrow(s, l, note):
        """a typed read into a subclass pointer of what the store side holds as base pointer relies on the dynamic class"""
        for a, b in zip(s, l):
            if isinstance(a, tuple) and isinstance(b, tuple) and a[0] == b[0]:
                if a[0] == "br":
                    for x, y in zip(a[1], b[1]):
                        narrow(x, y, note)
                else:
                    narrow(a[1], b[1], note)
            elif isinstance(a, dict) and isinstance(b, dict) and a["a"] == b["a"] == "AObj" and a["cls"] != b["cls"]:
                c, seen = b["cls"], 0
                chain = [c]
                while chain and seen < 20:
                    seen += 1
                    c = chain.pop()
                    if c == a["cls"]:
                        note.append("%s read as %s" % (a["cls"], b["cls"]))
                        a["cls"] = b["cls"]
                        break
                    chain += rd.idx.classes.get(c, {}).get("bases", [])
    for e in out:
        e["narrowing"] = []
        narrow(e["store_tree"], e["load_tree"], e["narrowing"])
        e["store_coq"], e["store"] = flatten(e.pop("store_tree"), rd)
        e["load_coq"], e["load"] = flatten(e.pop("load_tree"), rd)
        e["unknown_types"] = [s for s in e["store"] + e["load"] if s.startswith("WUnknown")]
        e["insert_hash"] = [[crc(x) for x in call] for call in e.get("insert", [])]
    return out


def paths_of(rd, node, ctx, store):
    """control-flow paths of a helper body: list of (actions, returned)"""
    kind = node[0]
    if kind == "block":
        cur = [([], False)]
        for s in node[1]:
            nxt = []
            sub = None
            for acts, ret in cur:
                if ret:
                    nxt.append((acts, True))
                    continue
                if sub is None:
                    sub = paths_of(rd, s, ctx, store)
                for a2, r2 in sub:
                    nxt.append((acts + a2, r2))
            cur = nxt
            if len(cur) > 400:
                raise ValueError("too many paths")
        return cur
    if kind == "simple":
        if re.match(r"return\b", node[1]):
            return [(rd.simple_actions(node[1], ctx, store), True)]
        if re.match(r"break\b", node[1]):
            return [([], False)]
        return [(rd.simple_actions(node[1], ctx, store), False)]
    if kind == "if":
        ctx["conds"].append("if " + " ".join(node[1].split()))
        if re.search(r"\b%s\b" % ctx["eng"], node[1]):
            ctx["unparsed"].append("engine used in condition: %s" % node[1])
        out = paths_of(rd, node[2], ctx, store)
        out += paths_of(rd, node[3], ctx, store) if node[3] is not None else [([], False)]
        return out
    if kind == "switch":
        ctx["conds"].append("switch " + " ".join(node[1].split()))
        out = []
        has_default = False
        for label, stmts in node[2]:
            ctx["conds"].append(" ".join(label.split()))
            has_default |= label.startswith("default")
            out += paths_of(rd, ("block", stmts), ctx, store)
        if not has_default:
            out.append(([], False))
        return out
    if kind == "loop":
        body = paths_of(rd, node[2], ctx, store) if node[2] else [([], False)]
        if len(body) != 1:
            ctx["unparsed"].append("branching inside a loop")
        return [([("loop", body[0][0])] if body[0][0] else [], False)]
    return [([], False)]


def scan_helpers(rd):
    """static store<X>/load<X> helper pairs taking the engine (storeDV/loadDV, storeIC/loadIC, ...): every control-flow
    path of both bodies as an action list, and the decision conditions (if / switch / case texts) in source order"""
    found = {}
    for f in sorted(glob.glob(os.path.join(SRC, "**", "*.cpp"), recursive=True)):
        if f.endswith("XTemplateSerializer.cpp"):
            continue
        try:
            raw = open(f, errors="replace").read()
        except OSError:
            continue
        if "XSerializeEngine" not in raw:
            continue
        t = strip_comments(raw)
        filevars = {}
        for m in re.finditer(r"(?:static\s+)?const\s+((?:unsigned\s+)?\w+)\s+(\w+)\s*=", t):
            filevars[m.group(2)] = m.group(1)
        for m in re.finditer(r"\b(\w+)\s*::\s*(store|load)([A-Z]\w*)\s*\(", t):
            q = match_brace(t, m.end() - 1, "(", ")")
            params = t[m.end():q]
            em = re.search(r"XSerializeEngine\s*&\s*(\w+)", params)
            k = skip_ws(t, q + 1)
            if not em or k >= len(t) or t[k] != "{":
                continue
            j = match_brace(t, k)
            plocals = {}
            for prm in split_args(params):
                pm = re.match(r"^\s*(.*?)\b(\w+)\s*$", " ".join(prm.split()))
                if pm and pm.group(1).strip():
                    ty = re.sub(r"\bconst\b", "", pm.group(1))
                    plocals[pm.group(2)] = " ".join(ty.split()).replace(" *", "*").replace("* ", "*").rstrip("&").strip()
            found.setdefault(m.group(3), {})[m.group(2)] = {
                "cls": m.group(1), "eng": em.group(1), "body": t[k + 1:j], "file": os.path.relpath(f, V.REPO),
                "line": t.count("\n", 0, m.start()) + 1, "filevars": filevars, "plocals": plocals}
    out = []
    for name in sorted(found):
        pair = found[name]
        e = {"name": name, "unparsed": [], "file": next(iter(pair.values()))["file"], "narrowing": []}
        if set(pair) != {"store", "load"}:
            continue            # not a pair (e.g. loadNumber): handled where it is called
        for d in ("store", "load"):
            fn = pair[d]
            loc = rd.locals_of(fn["body"])
            loc.update(fn["plocals"])
            ctx = {"cls": fn["cls"], "eng": fn["eng"], "locals": loc, "filevars": fn["filevars"], "unparsed": [], "returns": 0,
                   "conds": []}
            try:
                ps = paths_of(rd, ("block", parse_block(fn["body"])), ctx, d == "store")
            except ValueError as ex:
                ps = []
                ctx["unparsed"].append(str(ex))
            e[d + "_paths"] = [normalise(a) for a, _ in ps]
            e[d + "_conds"] = ctx["conds"]
            e[d + "_line"] = fn["line"]
            e["unparsed"] += ctx["unparsed"]
        out.append(e)
    for e in out:
        # a typed read into a subclass pointer of what the store side writes through a base pointer: same wire form
        for sp_ in e["store_paths"]:
            for a in sp_:
                if isinstance(a, dict) and a["a"] == "AObj":
                    for lp_ in e["load_paths"]:
                        for b in lp_:
                            if isinstance(b, dict) and b["a"] == "AObj" and b["cls"] != a["cls"]:
                                c, chain, seen = None, [b["cls"]], 0
                                while chain and seen < 30:
                                    seen += 1
                                    c = chain.pop()
                                    if c == a["cls"]:
                                        e["narrowing"].append("%s read as %s" % (a["cls"], b["cls"]))
                                        b["type"] = b["cls"] + "* (subclass of " + a["cls"] + ")"
                                        b["cls"] = a["cls"]
                                        break
                                    chain += rd.idx.classes.get(c, {}).get("bases", [])
        for d in ("store", "load"):
            fl = [flatten(p_, rd) for p_ in e.pop(d + "_paths")]
            uniq, seen = [], set()
            for c_, s_ in fl:
                if tuple(c_) not in seen:
                    seen.add(tuple(c_))
                    uniq.append((c_, s_))
            e[d + "_coq"] = [c_ for c_, _ in uniq]
            e[d] = [" ".join(s_) for _, s_ in uniq]
        e["unknown_types"] = [s for s in e["store"] + e["load"] if "WUnknown" in s]
        e["narrowing"] = sorted(set(e["narrowing"]))
    return out


def generate():
    rd, classes = scan()
    helpers = scan_helpers(rd)
    for h in helpers:
        if h["name"] not in rd.helpers:
            rd.helpers[h["name"]] = len(rd.helpers) + 1
        h["id"] = rd.helpers[h["name"]]
    conts = scan_containers(rd)
    for e in conts:
        if e["sig"] not in rd.tmpl:
            rd.tmpl[e["sig"]] = len(rd.tmpl) + 1
        e["id"] = rd.tmpl[e["sig"]]
    level = read_level()
    bufsize = read_bufsize()
    lines = ["(** GENERATED by translator/c16_ser.py from %s/src/xercesc - do not edit.  %d classes. *)" % ("/repo", len(classes)),
             "From XV Require Import Base.XDefs C16.Model16.", "",
             "Definition ser_level : N := %d%%N.      (* GRAMMAR_SERIALIZATION_LEVEL in configure.ac *)" % level,
             "Definition ser_bufsize : N := %d%%N.   (* default bufSize of XSerializeEngine's constructors *)" % bufsize, ""]
    names = []
    for c in classes:
        ident = "ser_c%d" % c["id"]
        names.append(ident)
        lines.append("(* %d = %s   (%s:%d)%s *)" % (c["id"], c["name"], c["file"], c["line"],
                                                  "  UNPARSED ITEMS: correspondence only" if c["unparsed"] else ""))
        lines.append("Definition %s : centry := (%d, %s,\n  [%s],\n  [%s])." % (
            ident, c["id"], "true" if c["creatable"] else "false", "; ".join(c["store_coq"]), "; ".join(c["load_coq"])))
    lines.append("")
    lines.append("Definition ser_classes : list centry :=\n  [%s]." % "; ".join(names))
    parsed = [c for c in classes if not c["unparsed"]]
    lines.append("(** classes whose body was read completely (the others are covered by the correspondence only) *)")
    lines.append("Definition ser_parsed : list centry :=\n  [%s]." % "; ".join("ser_c%d" % c["id"] for c in parsed))
    lines.append("")
    lines.append("(** XTemplateSerializer.cpp: one entry per storeObject/loadObject overload pair; id = the ATmpl kind *)")
    cparsed = [e for e in conts if not e["unparsed"]]
    for e in conts:
        lines.append("(* kind %d = %s   (XTemplateSerializer.cpp:%d)%s *)" % (e["id"], e["sig"].replace("*", "-ptr"), e["line"],
                                                                            "  UNPARSED ITEMS: correspondence only" if e["unparsed"] else ""))
        lines.append("Definition ser_t%d : centry := (%d, true,\n  [%s],\n  [%s])." % (
            e["id"], e["id"], "; ".join(e["store_coq"]), "; ".join(e["load_coq"])))
    lines.append("Definition ser_containers : list centry :=\n  [%s]." % "; ".join("ser_t%d" % e["id"] for e in cparsed))
    lines.append("(** insertion call of each loadObject: (crc of the container signature, [[crc of callee; crc of each argument]]) *)")
    lines.append("Definition ser_container_inserts : list insert_sig :=\n  [%s]." % ";\n   ".join(
        "(%d%%N, [%s])" % (crc(e["sig"]), "; ".join("[%s]" % "; ".join("%d%%N" % h for h in call) for call in e["insert_hash"]))
        for e in cparsed))
    lines.append("")
    lines.append("(** static store<X>/load<X> helper pairs: (helper id, action lists of all store paths, of all load paths) *)")
    hparsed = [h for h in helpers if not h["unparsed"]]
    for h in helpers:
        lines.append("(* helper %d = store%s/load%s   (%s:%d/%d)%s *)" % (h["id"], h["name"], h["name"], h["file"], h["store_line"], h["load_line"],
                                                                        "  UNPARSED ITEMS: correspondence only" if h["unparsed"] else ""))
        lines.append("Definition ser_h%d : hentry := (%d,\n  [%s],\n  [%s])." % (
            h["id"], h["id"], ";\n   ".join("[%s]" % "; ".join(p_) for p_ in h["store_coq"]),
            ";\n   ".join("[%s]" % "; ".join(p_) for p_ in h["load_coq"])))
    lines.append("Definition ser_helpers : list hentry :=\n  [%s]." % "; ".join("ser_h%d" % h["id"] for h in hparsed))
    lines.append("(** decision conditions of each pair: (crc of the helper name, [crcs of the store side's if/switch/case texts; of the load side's]) *)")
    lines.append("Definition ser_helper_conds : list insert_sig :=\n  [%s]." % ";\n   ".join(
        "(%d%%N, [[%s]; [%s]])" % (crc(h["name"]), "; ".join("%d%%N" % crc(c_) for c_ in h["store_conds"]),
                                   "; ".join("%d%%N" % crc(c_) for c_ in h["load_conds"])) for h in hparsed))
    V.write_if_changed(os.path.join(V.COQ, "theories", "Gen", "GenSerialize.v"), "\n".join(lines) + "\n")
    obl = ["(** GENERATED by translator/c16_ser.py - one obligation per class with a completely read serialize() body:",
           "    after inlining the base-class calls, the store branch and the load branch issue the same sequence of",
           "    wire-level actions (same length, same order, same width/kind at every position). *)",
           "From XV Require Import Base.XDefs C16.Model16 C16.Containers16 C16.Helpers16 Gen.GenSerialize.", ""]
    for c in parsed:
        obl.append("Lemma T16_sym_%s : class_obligation ser_classes ser_c%d = true.\nProof. vm_compute. reflexivity. Qed." % (c["name"], c["id"]))
    for e in cparsed:
        obl.append("Lemma T16_tmpl_%d : container_ok ser_t%d = true. (* %s *)\nProof. vm_compute. reflexivity. Qed." % (
            e["id"], e["id"], e["sig"].replace("*", "-ptr")))
    obl.append("Lemma T16_tmpl_all : forallb container_ok ser_containers = true.\nProof. vm_compute. reflexivity. Qed.")
    obl.append("Lemma T16_tmpl_covered : tmpl_covered ser_parsed ser_containers = true.\nProof. vm_compute. reflexivity. Qed.")
    obl.append("Lemma T16_tmpl_inserts : inserts_ok pinned_container_inserts ser_container_inserts = true.\nProof. vm_compute. reflexivity. Qed.")
    for h in hparsed:
        obl.append("Lemma T16_helper_%s : helper_ok ser_h%d = true.\nProof. vm_compute. reflexivity. Qed." % (h["name"], h["id"]))
    obl.append("Lemma T16_helper_all : forallb helper_ok ser_helpers = true.\nProof. vm_compute. reflexivity. Qed.")
    obl.append("Lemma T16_helper_covered : helpers_covered (ser_parsed ++ ser_containers) ser_helpers = true.\nProof. vm_compute. reflexivity. Qed.")
    obl.append("Lemma T16_helper_conds : inserts_ok pinned_helper_conds ser_helper_conds = true.\nProof. vm_compute. reflexivity. Qed.")
    obl.append("")
    obl.append("Lemma T16_sym_all : forallb (class_obligation ser_classes) ser_parsed = true.\nProof. vm_compute. reflexivity. Qed.")
    obl.append("Lemma ser_level_pos : (0 < ser_level < 4294967296)%N.\nProof. vm_compute. split; reflexivity. Qed.")
    obl.append("Lemma ser_bufsize_min : (8 <= ser_bufsize)%N.\nProof. vm_compute. discriminate. Qed.")
    V.write_if_changed(os.path.join(V.COQ, "theories", "Gen", "GenSerializeObl.v"), "\n".join(obl) + "\n")
    side = {"level": level, "bufsize": bufsize, "class_ids": rd.cls_ids, "template_kinds": rd.tmpl, "helpers": rd.helpers,
            "helper_pairs": [{k: h[k] for k in ("id", "name", "file", "store_line", "load_line", "store", "load", "store_conds",
                                                "load_conds", "unparsed", "unknown_types", "narrowing")} for h in helpers],
            "containers": [{k: e[k] for k in ("id", "sig", "line", "store", "load", "unparsed", "unknown_types", "narrowing", "insert")}
                           for e in conts],
            "classes": [{k: c[k] for k in ("id", "name", "file", "line", "creatable", "declared_nocreate", "store", "load",
                                           "unparsed", "unknown_types")} for c in classes]}
    os.makedirs(os.path.join(V.VERIF, "gen"), exist_ok=True)
    V.write_if_changed(os.path.join(V.VERIF, "gen", "C16-serialize.json"), json.dumps(side, indent=1) + "\n")
    return side


if __name__ == "__main__":
    s = generate()
    for c in s["classes"]:
        print("%3d %-34s %s%s" % (c["id"], c["name"], "C" if c["creatable"] else "-", "  UNPARSED %s" % c["unparsed"] if c["unparsed"] else ""))
        if "-v" in sys.argv:
            print("      store:", " ".join(c["store"]))
            print("      load :", " ".join(c["load"]))
        if c["unknown_types"]:
            print("      unknown:", c["unknown_types"])
    print("level", s["level"], "bufsize", s["bufsize"], "classes", len(s["classes"]))
