#!/usr/bin/env python3
"""Translator unit of C04/C01: reads the reader's buffer constants from src/xercesc/internal/XMLReader.hpp
(kCharBufSize, kRawBufSize, default low-water mark), the growth constants of XMLBuffer / ElemStack, and the
character-class tables of src/xercesc/util/XMLChar.cpp (name / first-name / whitespace classes, as ranges) and
regenerates coq/theories/Gen/GenReaderConsts.v.  Run on every check of C04 and C01."""
import os
import re
import sys

sys.path.insert(0, os.path.join(os.path.dirname(os.path.abspath(__file__)), "..", "lib"))
import vcommon as V


class TranslateError(Exception):
    pass


def strip_comments(s):
    s = re.sub(r"/\*.*?\*/", "", s, flags=re.S)
    return re.sub(r"//[^\n]*", "", s)


def const_expr(txt):
    """evaluate a C constant expression made of integer literals, * + - ( )"""
    txt = txt.strip()
    if not re.fullmatch(r"[0-9xXa-fA-F\s*+\-()]+", txt):
        raise TranslateError("unsupported constant expression %r" % txt)
    return int(eval(txt, {"__builtins__": {}}))


def read_reader_consts():
    hpp = strip_comments(open(os.path.join(V.REPO, "src/xercesc/internal/XMLReader.hpp")).read())
    out = {}
    for name in ("kCharBufSize", "kRawBufSize"):
        m = re.search(r"\b%s\s*=\s*([^,}\n]+)" % name, hpp)
        if not m:
            raise TranslateError("constant %s not found in XMLReader.hpp" % name)
        out[name] = const_expr(m.group(1))
    m = re.findall(r"XMLSize_t\s+lowWaterMark\s*=\s*(\d+)", hpp)
    if not m or len(set(m)) != 1:
        raise TranslateError("default lowWaterMark not found / not unique in XMLReader.hpp")
    out["lowWaterDefault"] = int(m[0])
    # the array declarations must use the constants (otherwise the model's sizes are not the code's sizes)
    for arr, k in (("fCharBuf", "kCharBufSize"), ("fRawByteBuf", "kRawBufSize"), ("fCharSizeBuf", "kCharBufSize")):
        if not re.search(r"\b%s\s*\[\s*%s\s*\]" % (arr, k), hpp):
            raise TranslateError("%s is no longer declared with %s elements" % (arr, k))
    return out


def read_grow_consts():
    """XMLBuffer::ensureCapacity and ElemStack growth expressions (for T01_grow)"""
    out = {}
    buf = strip_comments(open(os.path.join(V.REPO, "src/xercesc/framework/XMLBuffer.cpp")).read())
    m = re.search(r"newCap\s*=\s*\(\s*fIndex\s*\+\s*extraNeeded\s*\)\s*\*\s*(\d+)\s*;", buf)
    if not m:
        raise TranslateError("XMLBuffer::ensureCapacity growth expression not recognised")
    out["xmlbufGrowFactor"] = int(m.group(1))
    es = strip_comments(open(os.path.join(V.REPO, "src/xercesc/internal/ElemStack.cpp")).read())
    m = re.search(r"newCapacity\s*=\s*\(XMLSize_t\)\s*\(\s*fStackCapacity\s*\*\s*([0-9.]+)\s*\)", es)
    if not m:
        raise TranslateError("ElemStack::expandStack growth expression not recognised")
    num = m.group(1)
    if num != "1.25":
        raise TranslateError("ElemStack growth factor changed to %s (model has cap + cap/4)" % num)
    out["elemStackGrowNum"], out["elemStackGrowDen"] = 5, 4
    m = re.search(r"fStackCapacity\s*\(\s*(\d+)\s*\)", es)
    if not m:
        raise TranslateError("ElemStack initial fStackCapacity not found")
    out["elemStackInitCap"] = int(m.group(1))
    # every "cap ? (XMLSize_t)(cap * 1.25) : init" growth site (prefix maps 16, child rows 32)
    sites = re.findall(r"(\w[\w>\-]*)\s*\?\s*\(XMLSize_t\s*\)\s*\(\s*\1\s*\*\s*([0-9.]+)\s*\)\s*:\s*(\d+)", es)
    if len(sites) < 2:
        raise TranslateError("ElemStack map/child-row growth expressions not recognised")
    for var, fac, init in sites:
        if fac != "1.25":
            raise TranslateError("ElemStack growth factor of %s changed to %s" % (var, fac))
    out["elemGrowInitMin"] = min(int(i) for _, _, i in sites)
    # DFAContentModel::buildDFA: initial size of statesToDo / fFinalStateFlags / fTransTable, the grow-if-full test and factor
    dfa = strip_comments(open(os.path.join(V.REPO, "src/xercesc/validators/common/DFAContentModel.cpp")).read())
    m = re.search(r"unsigned\s+int\s+curArraySize\s*=\s*fLeafCount\s*\*\s*(\d+)\s*;", dfa)
    if not m:
        raise TranslateError("buildDFA: initial curArraySize expression not recognised")
    out["dfaInitFactor"] = int(m.group(1))
    tests = re.findall(r"if\s*\(\s*curState\s*(==|>=|>|<=|<|!=)\s*curArraySize\s*\)", dfa)
    if len(tests) != 1 or tests[0] not in ("==", ">=", ">"):
        raise TranslateError("buildDFA: grow-if-full test not recognised: %r" % (tests,))
    out["dfaGrowTest"] = {"==": 0, ">=": 1, ">": 2}[tests[0]]
    m = re.search(r"newSize\s*=\s*\(unsigned\s+int\)\s*\(\s*curArraySize\s*\*\s*([0-9.]+)\s*\)", dfa)
    if not m or m.group(1) != "1.5":
        raise TranslateError("buildDFA: growth factor not recognised / changed")
    out["dfaGrowNum"], out["dfaGrowDen"] = 3, 2
    # the new state must be stored before the test, at index curState, then curState++ (shape the model assumes)
    if not re.search(r"statesToDo\[curState\]\s*=\s*newSet\s*;.*?curState\+\+\s*;.*?if\s*\(\s*curState", dfa, flags=re.S):
        raise TranslateError("buildDFA: store / increment / test order not recognised")
    return out


def read_char_table(name):
    src = open(os.path.join(V.REPO, "src/xercesc/util/XMLChar.cpp")).read()
    m = re.search(r"XMLByte\s+XMLChar1_\d::%s\s*\[\s*0x10000\s*\]\s*=\s*\{" % name, src)
    if not m:
        raise TranslateError("table %s not found" % name)
    end = src.index("};", m.end())
    vals = [int(x, 16) for x in re.findall(r"0x([0-9A-Fa-f]{2})\b", src[m.end():end])]
    if len(vals) != 0x10000:
        raise TranslateError("table %s has %d entries" % (name, len(vals)))
    return vals


def ranges(vals, mask):
    out = []
    start = None
    for i, v in enumerate(vals + [0]):
        on = (v & mask) != 0 if i < len(vals) else False
        if on and start is None:
            start = i
        if not on and start is not None:
            out.append((start, i - 1))
            start = None
    return out


def coq_pairs(ps, per=8):
    rows = []
    for i in range(0, len(ps), per):
        rows.append("; ".join("(%d, %d)" % p for p in ps[i:i + per]))
    return "[ " + ";\n    ".join(rows) + " ]" if ps else "[]"


def masks():
    hpp = strip_comments(open(os.path.join(V.REPO, "src/xercesc/util/XMLChar.hpp")).read())
    out = {}
    for n in ("gNCNameCharMask", "gFirstNameCharMask", "gNameCharMask", "gWhitespaceCharMask", "gPlainContentCharMask"):
        m = re.search(r"\b%s\s*=\s*(0x[0-9A-Fa-f]+)" % n, hpp)
        if not m:
            raise TranslateError("mask %s not found" % n)
        out[n] = int(m.group(1), 16)
    return out


def generate():
    rc = read_reader_consts()
    gc = read_grow_consts()
    mk = masks()
    t10 = read_char_table("fgCharCharsTable1_0")
    t11 = read_char_table("fgCharCharsTable1_1")
    out = ("(* GENERATED by translator/c04_consts.py from src/xercesc/internal/XMLReader.hpp, framework/XMLBuffer.cpp,\n"
           "   internal/ElemStack.cpp and util/XMLChar.{hpp,cpp} -- do not edit; regenerated on every check *)\n"
           "From Coq Require Import NArith List.\nImport ListNotations.\nLocal Open Scope N_scope.\n\n")
    for k in ("kCharBufSize", "kRawBufSize", "lowWaterDefault"):
        out += "Definition %s : N := %d.\n" % (k, rc[k])
    for k in sorted(gc):
        out += "Definition %s : N := %d.\n" % (k, gc[k])
    out += "\n"
    data = {"consts": dict(rc, **gc)}
    for ver, tab in (("10", t10), ("11", t11)):
        for cls, mask in (("name", "gNameCharMask"), ("firstname", "gFirstNameCharMask"), ("ws", "gWhitespaceCharMask"),
                          ("ncname", "gNCNameCharMask"), ("plain", "gPlainContentCharMask")):
            rs = ranges(tab, mk[mask])
            data["%s_%s" % (cls, ver)] = rs
            out += "Definition %s_ranges_%s : list (N * N) :=\n  %s.\n\n" % (cls, ver, coq_pairs(rs))
    V.write_if_changed(os.path.join(V.COQ, "theories", "Gen", "GenReaderConsts.v"), out)
    return data


if __name__ == "__main__":
    d = generate()
    print(d["consts"], {k: len(v) for k, v in d.items() if k != "consts"})
