#!/usr/bin/env python3
"""Translator unit T-encnames (C05): encoding names and name->transcoder resolution, read out of /repo's
*current* source and regenerated as coq/theories/Gen/GenEncNames.v on every check.

  * src/xercesc/util/XMLUni.cpp           : the fg*EncodingString* constants (null-terminated XMLCh strings)
  * src/xercesc/util/XMLUniDefs.hpp       : values of the ch* constants
  * src/xercesc/framework/XMLRecognizer.hpp/.cpp : enum Encodings, gEncodingNameMap, the if/else chain of encodingForName
  * src/xercesc/internal/XMLReader.cpp    : the generic UTF-16 / UCS-4 name lists tested by setEncoding
  * src/xercesc/util/TransService.cpp     : initTransService: gMappings->put(name, E[Endian]NameMapFor<Class>(name[, swapped]))
                                            and gMappingsRecognizer->setElementAt(..., XMLRecognizer::<enum>)
The host is little endian (XMLPlatformUtils::fgXMLChBigEndian = false), as everywhere in C05."""
import os
import re
import sys

sys.path.insert(0, os.path.join(os.path.dirname(os.path.abspath(__file__)), "..", "lib"))
import vcommon as V


class TranslateError(Exception):
    pass


ENUM = ["EBCDIC", "UCS_4B", "UCS_4L", "US_ASCII", "UTF_8", "UTF_16B", "UTF_16L", "XERCES_XMLCH"]
OTHER = 999
CLASSES = ["XMLChTranscoder", "XMLASCIITranscoder", "XMLUTF8Transcoder", "XML88591Transcoder", "XMLUTF16Transcoder",
           "XMLUCS4Transcoder", "XMLEBCDICTranscoder", "XMLIBM1047Transcoder", "XMLIBM1140Transcoder",
           "XMLWin1252Transcoder"]


def strip_comments(s):
    s = re.sub(r"/\*.*?\*/", "", s, flags=re.S)
    s = re.sub(r"//[^\n]*", "", s)
    return s


def read(rel):
    return strip_comments(open(os.path.join(V.REPO, "src", "xercesc", rel)).read())


def ch_constants():
    src = read("util/XMLUniDefs.hpp")
    d = {}
    for m in re.finditer(r"const\s+XMLCh\s+(ch\w+)\s*=\s*(0[xX][0-9a-fA-F]+|\d+)\s*;", src):
        d[m.group(1)] = int(m.group(2), 0)
    if len(d) < 100:
        raise TranslateError("XMLUniDefs.hpp: only %d ch* constants found" % len(d))
    return d


def uni_strings():
    """every XMLUni::fg...EncodingString... constant -> list of units (without the terminator)"""
    ch = ch_constants()
    src = read("util/XMLUni.cpp")
    out = {}
    for m in re.finditer(r"const\s+XMLCh\s+XMLUni::(fg\w*EncodingString\w*)\s*\[\s*\]\s*=\s*\{([^}]*)\}", src):
        toks = re.findall(r"[A-Za-z_]\w*|0[xX][0-9a-fA-F]+|\d+", m.group(2))
        u = []
        for t in toks:
            if t in ch:
                u.append(ch[t])
            elif re.match(r"^(0[xX][0-9a-fA-F]+|\d+)$", t):
                u.append(int(t, 0))
            else:
                raise TranslateError("XMLUni::%s: unknown token %s" % (m.group(1), t))
        if not u or u[-1] != 0 or 0 in u[:-1]:
            raise TranslateError("XMLUni::%s is not a null-terminated string" % m.group(1))
        out[m.group(1)] = u[:-1]
    if len(out) < 40:
        raise TranslateError("XMLUni.cpp: only %d encoding strings found" % len(out))
    return out


def func_body(src, header_re):
    m = re.search(header_re, src)
    if not m:
        raise TranslateError("function %s not found" % header_re)
    i = src.index("{", m.end())
    depth, j = 1, i + 1
    while depth:
        if src[j] == "{":
            depth += 1
        elif src[j] == "}":
            depth -= 1
        j += 1
    return src[i + 1:j - 1]


def enum_value(expr):
    """`XMLRecognizer::X` or `fgXMLChBigEndian ? XMLRecognizer::A : XMLRecognizer::B` (little-endian host -> B)"""
    expr = expr.strip()
    m = re.match(r"^XMLPlatformUtils::fgXMLChBigEndian\s*\?\s*XMLRecognizer::(\w+)\s*:\s*XMLRecognizer::(\w+)$", expr)
    if m:
        expr = "XMLRecognizer::" + m.group(2)
    m = re.match(r"^XMLRecognizer::(\w+)$", expr)
    if not m:
        raise TranslateError("cannot read the returned encoding `%s`" % expr)
    if m.group(1) == "OtherEncoding":
        return OTHER
    if m.group(1) not in ENUM:
        raise TranslateError("unknown enumerator %s" % m.group(1))
    return ENUM.index(m.group(1))


def read_all():
    S = uni_strings()
    # -- enum Encodings: the model's constructors are tied to these numbers
    hpp = read("framework/XMLRecognizer.hpp")
    m = re.search(r"enum\s+Encodings\s*\{([^}]*)\}", hpp)
    if not m:
        raise TranslateError("enum Encodings not found")
    vals = dict((a, int(b)) for a, b in re.findall(r"(\w+)\s*=\s*(\d+)", m.group(1)))
    for i, nm in enumerate(ENUM):
        if vals.get(nm) != i:
            raise TranslateError("enum Encodings: %s is %r, the model expects %d" % (nm, vals.get(nm), i))
    if vals.get("OtherEncoding") != OTHER:
        raise TranslateError("OtherEncoding changed")
    rec = read("framework/XMLRecognizer.cpp")
    # -- gEncodingNameMap
    m = re.search(r"gEncodingNameMap\s*\[[^\]]*\]\s*=\s*\{([^}]*)\}", rec)
    if not m:
        raise TranslateError("gEncodingNameMap not found")
    nm_map = re.findall(r"XMLUni::(\w+)", m.group(1))
    if len(nm_map) != len(ENUM):
        raise TranslateError("gEncodingNameMap has %d entries" % len(nm_map))
    name_map = [S[x] for x in nm_map]
    # -- encodingForName: ordered clauses (names, result)
    body = func_body(rec, r"XMLRecognizer::encodingForName\s*\(")
    chain = []
    pos = 0
    for m in re.finditer(r"return\s+([^;]+);", body):
        cond = body[pos:m.start()]
        pos = m.end()
        names = re.findall(r"compareString\s*\(\s*encName\s*,\s*XMLUni::(\w+)\s*\)", cond)
        val = enum_value(m.group(1))
        if names:
            # each comparison must be of the form !compareString(...) joined by ||
            if "&&" in cond or cond.count("!XMLString::compareString") != len(names):
                raise TranslateError("encodingForName: unexpected condition shape: %s" % cond.strip()[:120])
            chain.append(([S[n] for n in names], val))
        elif val != OTHER:
            raise TranslateError("encodingForName: unconditional return of %s" % m.group(1))
    if len(chain) < 9:
        raise TranslateError("encodingForName: only %d clauses read" % len(chain))
    # -- setEncoding: the two generic-name tests
    rd = read("internal/XMLReader.cpp")
    sb = func_body(rd, r"bool\s+XMLReader::setEncoding\s*\(")
    gen16 = re.findall(r"equals\s*\(\s*inputEncoding\s*,\s*XMLUni::(fgUTF16EncodingString\w*)\s*\)", sb)
    gen4 = re.findall(r"equals\s*\(\s*inputEncoding\s*,\s*XMLUni::(fgUCS4EncodingString\w*)\s*\)", sb)
    others = re.findall(r"equals\s*\(\s*inputEncoding\s*,\s*XMLUni::(\w+)\s*\)", sb)
    if not gen16 or not gen4 or len(others) != len(gen16) + len(gen4):
        raise TranslateError("setEncoding: generic-name tests changed shape (%d/%d/%d)" % (len(gen16), len(gen4), len(others)))
    # -- initTransService
    ts = read("util/TransService.cpp")
    ib = func_body(ts, r"void\s+XMLTransService::initTransService\s*\(")
    swapped = None
    maps, recmap = [], {}
    stmts = [s.strip() for s in ib.split(";")]
    for st in stmts:
        st1 = re.sub(r"\s+", " ", st)
        m = re.match(r"^(bool )?swapped = (.*)$", st1)
        if m:
            e = m.group(2).replace(" ", "")
            if e == "XMLPlatformUtils::fgXMLChBigEndian":
                swapped = False
            elif e == "!XMLPlatformUtils::fgXMLChBigEndian":
                swapped = True
            else:
                raise TranslateError("initTransService: swapped = %s" % e)
            continue
        m = re.match(r"^gMappings->put ?\( ?\(void ?\*\) ?XMLUni::(\w+) ?, ?new (ENameMapFor|EEndianNameMapFor) ?< ?(\w+) ?> ?"
                     r"\( ?XMLUni::(\w+) ?(?:, ?(\w+) ?)?\) ?\)$", st1)
        if m:
            key, kind, cls, nm2, sw = m.groups()
            if cls not in CLASSES:
                raise TranslateError("initTransService: unknown transcoder class %s" % cls)
            if kind == "EEndianNameMapFor":
                if sw == "swapped":
                    if swapped is None:
                        raise TranslateError("swapped used before assignment")
                    swv = swapped
                elif sw == "false":
                    swv = False
                elif sw == "true":
                    swv = True
                else:
                    raise TranslateError("initTransService: swapped argument %s" % sw)
            else:
                if sw is not None:
                    raise TranslateError("ENameMapFor with a second argument")
                swv = False
            maps.append((S[key], CLASSES.index(cls), swv))
            continue
        m = re.match(r"^gMappingsRecognizer->setElementAt ?\( ?new (ENameMapFor|EEndianNameMapFor) ?< ?(\w+) ?> ?"
                     r"\( ?XMLUni::(\w+) ?(?:, ?(\w+) ?)?\) ?, ?XMLRecognizer::(\w+) ?\)$", st1)
        if m:
            kind, cls, nm2, sw, en = m.groups()
            if en not in ENUM or cls not in CLASSES:
                raise TranslateError("initTransService: setElementAt(%s, %s)" % (cls, en))
            swv = swapped if sw == "swapped" else (sw == "true")
            if kind == "EEndianNameMapFor" and sw == "swapped" and swapped is None:
                raise TranslateError("swapped used before assignment")
            recmap[ENUM.index(en)] = (CLASSES.index(cls), bool(swv))
            continue
        if "gMappings->put" in st1 or "setElementAt" in st1:
            raise TranslateError("initTransService: statement not understood: %s" % st1[:160])
    if len(maps) < 40 or len(recmap) != len(ENUM):
        raise TranslateError("initTransService: %d name mappings, %d recognizer mappings" % (len(maps), len(recmap)))
    return {"strings": S, "name_map": name_map, "chain": chain, "gen16": [S[x] for x in gen16],
            "gen4": [S[x] for x in gen4], "maps": maps, "recmap": [recmap[i] for i in range(len(ENUM))]}


def cl(xs):
    return "[" + "; ".join(str(x) for x in xs) + "]"


def cstr(u):
    return "".join(chr(c) if 0x20 <= c < 0x7F else "?" for c in u)


def generate():
    d = read_all()
    o = ("(* GENERATED by translator/c05_names.py from src/xercesc/{util/XMLUni.cpp, framework/XMLRecognizer.cpp,\n"
         "   internal/XMLReader.cpp, util/TransService.cpp} -- do not edit; regenerated on every check *)\n"
         "From Coq Require Import NArith List.\nImport ListNotations.\nLocal Open Scope N_scope.\n\n")
    o += "(* gEncodingNameMap, in the order of enum XMLRecognizer::Encodings *)\nDefinition rec_name_map : list (list N) :=\n  [ " + \
         ";\n    ".join("%s (* %s *)" % (cl(u), cstr(u)) for u in d["name_map"]) + " ].\n\n"
    o += "(* encodingForName: ordered clauses (names compared, enumerator returned; 999 = OtherEncoding) *)\n" \
         "Definition efn_chain : list (list (list N) * N) :=\n  [ " + \
         ";\n    ".join("([%s], %d)" % ("; ".join(cl(u) for u in names), v) for names, v in d["chain"]) + " ].\n\n"
    o += "(* XMLReader::setEncoding: names without byte order *)\nDefinition se_utf16_generic : list (list N) :=\n  [ " + \
         ";\n    ".join("%s (* %s *)" % (cl(u), cstr(u)) for u in d["gen16"]) + " ].\n"
    o += "Definition se_ucs4_generic : list (list N) :=\n  [ " + \
         ";\n    ".join("%s (* %s *)" % (cl(u), cstr(u)) for u in d["gen4"]) + " ].\n\n"
    o += "(* initTransService: gMappings (name, (transcoder class, swapped)); classes: " + \
         ", ".join("%d=%s" % (i, c) for i, c in enumerate(CLASSES)) + " *)\n"
    o += "Definition ts_mappings : list (list N * (N * bool)) :=\n  [ " + \
         ";\n    ".join("(%s, (%d, %s)) (* %s *)" % (cl(u), c, "true" if s else "false", cstr(u)) for u, c, s in d["maps"]) + " ].\n\n"
    o += "(* gMappingsRecognizer, by enumerator *)\nDefinition ts_recognizer : list (N * bool) :=\n  [ " + \
         "; ".join("(%d, %s)" % (c, "true" if s else "false") for c, s in d["recmap"]) + " ].\n"
    V.write_if_changed(os.path.join(V.COQ, "theories", "Gen", "GenEncNames.v"), o)
    return d


if __name__ == "__main__":
    d = generate()
    print("ok: %d strings, %d chain clauses, %d mappings" % (len(d["strings"]), len(d["chain"]), len(d["maps"])))
