#!/usr/bin/env python3
"""T-ser-fields: FIELD COVERAGE of the serialisable classes.
For every class with a `void X::serialize(XSerializeEngine&)` body: the non-static data members declared in the class's
own header body, and for each of them whether its name occurs in the statements of the STORE direction and in the
statements of the LOAD direction of that body (the isStoring()/isLoading() alternatives are separated by the statement
parser of c16_ser.py; everything outside such an alternative belongs to both directions).  Emits
   coq/theories/Gen/GenSerFields.v      ser_fields : list fentry      (class crc, [(member crc, in store, in load)])
   coq/theories/Gen/GenSerFieldsObl.v   one obligation per class: every member is transferred in both directions or is
                                        listed (with reason) in the reviewed table C16/Fields16.v; and the table is precise
   gen/C16-fields.json                  readable sidecar
Also the enum-typed members: (class, member, enum type, cast type on the store side, temp type + cast on the load side)
so that `an enum is stored as int and read back through an int of the same width into the SAME enum type` is an
obligation (ser_enum_fields)."""
import json
import os
import re
import sys

sys.path.insert(0, os.path.dirname(os.path.abspath(__file__)))
import c16_ser as TS  # noqa
import vcommon as V  # noqa


def members_of(body):
    """non-static data members of a class body: name -> type (same reading as c16_ser.Index.members, but static members
    are dropped and bit-fields are kept)"""
    out = []
    d = 0
    for c in body:
        if c == "{":
            d += 1
        elif c == "}":
            d -= 1
            out.append(";")
        elif d == 0:
            out.append(c)
    flat = "".join(out)
    mem = {}
    for st in flat.split(";"):
        st = " ".join(st.split())
        for _ in range(3):
            st = re.sub(r"^(public|private|protected)\s*:\s*", "", st)
        if "(" in st or not st or len(st) > 300 or st.startswith(("friend", "typedef", "using", "enum", "class", "struct")):
            continue
        st = re.sub(r"\s*:\s*\d+\s*$", "", st)          # bit-field width
        m = re.match(r"^(.*?)\b(\w+)\s*(\[[^\]]*\])?$", st)
        if not m or not re.match(r"^[\w:<>,\s\*&]+$", m.group(1)) or ":" in m.group(1).replace("::", ""):
            continue
        ty = m.group(1).strip()
        if re.search(r"\bstatic\b", ty):
            continue
        ty = re.sub(r"\b(mutable|const|volatile)\b", "", ty)
        ty = " ".join(ty.split()).replace(" *", "*").replace("* ", "*").replace(" <", "<")
        if not ty:
            continue
        mem[m.group(2)] = ty
    return mem


def dir_text(node, eng, store):
    """text of the statements that are executed in one direction"""
    if node is None:
        return ""
    kind = node[0]
    if kind == "block":
        return " ; ".join(dir_text(s, eng, store) for s in node[1])
    if kind == "simple":
        return node[1]
    if kind == "if":
        m = re.match(r"^\s*(!?)\s*%s\s*\.\s*(isStoring|isLoading)\s*\(\s*\)\s*$" % eng, node[1])
        if m:
            want_store = (m.group(2) == "isStoring") != (m.group(1) == "!")
            return dir_text(node[2], eng, store) if want_store == store else dir_text(node[3], eng, store)
        return " ; ".join([node[1], dir_text(node[2], eng, store), dir_text(node[3], eng, store)])
    if kind == "loop":
        return node[1] + " ; " + dir_text(node[2], eng, store)
    if kind == "switch":
        return node[1] + " ; " + " ; ".join(dir_text(("block", st), eng, store) for _, st in node[2])
    return ""


def class_bodies():
    """class name -> (header file, own member dict); the longest body wins (forward declarations, nested helpers)"""
    import glob
    res = {}
    for f in sorted(glob.glob(os.path.join(TS.SRC, "**", "*.hpp"), recursive=True)):
        try:
            t = TS.strip_comments(open(f, errors="replace").read())
        except OSError:
            continue
        for m in re.finditer(r"\bclass\s+(?:[A-Z_]+_EXPORT\s+|[A-Z]+_EXPORT\s+)?(\w+)\s*(?::\s*([^{;]*?))?\s*\{", t):
            try:
                end = TS.match_brace(t, m.end() - 1)
            except ValueError:
                continue
            body = t[m.end():end]
            if m.group(1) not in res or len(body) > res[m.group(1)][2]:
                res[m.group(1)] = (os.path.relpath(f, V.REPO), members_of(body), len(body), t)
    return res


def scan_fields():
    import glob
    bodies = class_bodies()
    enums = set()
    for _, (f, _, _, t) in bodies.items():
        for m in re.finditer(r"\benum\s+(\w+)", t):
            enums.add(m.group(1))
    out = []
    for f in sorted(glob.glob(os.path.join(TS.SRC, "**", "*.[ch]pp"), recursive=True)):
        try:
            raw = open(f, errors="replace").read()
        except OSError:
            continue
        if "::serialize" not in raw or "XSerializeEngine" not in raw:
            continue
        t = TS.strip_comments(raw)
        for m in re.finditer(r"\bvoid\s+(\w+)\s*::\s*serialize\s*\(\s*XSerializeEngine\s*&\s*(\w*)\s*\)", t):
            cls, eng = m.group(1), m.group(2) or "__noeng__"
            i = t.index("{", m.end())
            j = TS.match_brace(t, i)
            tree = ("block", TS.parse_block(t[i + 1:j]))
            st, ld = dir_text(tree, eng, True), dir_text(tree, eng, False)
            hdr, mem = (bodies[cls][0], bodies[cls][1]) if cls in bodies else (None, {})
            fields, enum_fields = [], []
            for name in sorted(mem):
                pat = r"\b%s\b" % re.escape(name)
                s_in, l_in = bool(re.search(pat, st)), bool(re.search(pat, ld))
                fields.append({"name": name, "type": mem[name], "store": s_in, "load": l_in})
                base = mem[name].split("::")[-1]
                if base in enums and "*" not in mem[name] and s_in and l_in:
                    # store: `(T)name` with T an integer type; load: `name = (E)tmp` with E the declared enum type
                    sm = re.search(r"\(\s*([\w\s:]+?)\s*\)\s*%s\b" % re.escape(name), st)
                    lm = re.search(r"\b%s\s*=\s*\(\s*([\w\s:]+?)\s*\)\s*(\w+)" % re.escape(name), ld)
                    tmp_ty = None
                    if lm:
                        tm = re.search(r"\b((?:unsigned\s+)?\w+)\s+%s\s*(?:=[^;]*)?;" % re.escape(lm.group(2)), t[i + 1:j])
                        tmp_ty = tm.group(1) if tm else None
                    enum_fields.append({"name": name, "enum": mem[name], "store_cast": " ".join(sm.group(1).split()) if sm else None,
                                        "load_cast": " ".join(lm.group(1).split()) if lm else None, "load_tmp_type": tmp_ty})
            out.append({"name": cls, "file": os.path.relpath(f, V.REPO), "header": hdr, "fields": fields, "enums": enum_fields})
    return out


WIDTH4 = {"int", "unsigned int", "unsigned", "XMLInt32", "XMLUInt32"}


def enum_ok(cls, e):
    """stored through a 4-byte integer cast, loaded through a 4-byte integer temporary, cast back to the declared enum type
    (compared by the last component of the qualified name)"""
    if not e["load_cast"] or not e["load_tmp_type"]:
        return False
    # no cast on the store side: `serEng << fEnum` of an unscoped enum promotes to int (operator<<(int))
    return ((e["store_cast"] is None or e["store_cast"] in WIDTH4) and e["load_tmp_type"] in WIDTH4 and
            e["load_cast"].replace(" ", "").split("::")[-1] == e["enum"].replace(" ", "").split("::")[-1])


def generate():
    classes = scan_fields()
    lines = ["(** GENERATED by translator/c16_fields.py from /repo/src/xercesc - do not edit.",
             "    Per serialisable class: crc of its name, and per non-static data member declared in its header",
             "    (crc of the member name, occurs in the store direction of serialize(), occurs in the load direction). *)",
             "From XV Require Import Base.XDefs C16.Model16 C16.ModelFields16.", ""]
    for k, c in enumerate(classes):
        lines.append("(* %s   (%s; serialize() in %s) *)" % (c["name"], c["header"], c["file"]))
        lines.append("Definition ser_f%d : fentry := (%d%%N,\n  [%s])." % (k, TS.crc(c["name"]), ";\n   ".join(
            "(%d%%N, %s, %s) (* %s : %s *)" % (TS.crc(f["name"]), "true" if f["store"] else "false", "true" if f["load"] else "false",
                                            f["name"], f["type"].replace("*", "-ptr")) for f in c["fields"])))
    lines.append("Definition ser_fields : list fentry :=\n  [%s]." % "; ".join("ser_f%d" % k for k in range(len(classes))))
    lines.append("(** enum-typed members: (class crc, member crc, passes: stored through a 4-byte integer cast, read through a 4-byte")
    lines.append("    integer temporary, cast back to the declared enum type) *)")
    ens = [(c, e) for c in classes for e in c["enums"]]
    lines.append("Definition ser_enum_fields : list (N * N * bool) :=\n  [%s]." % ";\n   ".join(
        "(%d%%N, %d%%N, %s) (* %s::%s : %s; store (%s), load %s tmp -> (%s) *)" % (
            TS.crc(c["name"]), TS.crc(e["name"]), "true" if enum_ok(c, e) else "false", c["name"], e["name"], e["enum"],
            e["store_cast"], e["load_tmp_type"], e["load_cast"]) for c, e in ens))
    V.write_if_changed(os.path.join(V.COQ, "theories", "Gen", "GenSerFields.v"), "\n".join(lines) + "\n")
    obl = ["(** GENERATED by translator/c16_fields.py - field coverage: every data member of a serialisable class is transferred",
           "    by serialize() in both directions or is listed in the reviewed table C16/Fields16.v. *)",
           "From XV Require Import Base.XDefs C16.Model16 C16.ModelFields16 C16.Fields16 Gen.GenSerFields.", ""]
    for k, c in enumerate(classes):
        obl.append("Lemma T16_fields_%s : fields_ok (transient_fields ++ known_field_gaps) ser_f%d = true.\nProof. vm_compute. reflexivity. Qed." % (c["name"], k))
    obl.append("Lemma T16_fields_all : forallb (fields_ok (transient_fields ++ known_field_gaps)) ser_fields = true.\nProof. vm_compute. reflexivity. Qed.")
    obl.append("Lemma T16_fields_table_precise : transient_precise transient_fields ser_fields = true.\nProof. vm_compute. reflexivity. Qed.")
    obl.append("Lemma T16_enum_fields_all : forallb (fun e => snd e) ser_enum_fields = true.\nProof. vm_compute. reflexivity. Qed.")
    V.write_if_changed(os.path.join(V.COQ, "theories", "Gen", "GenSerFieldsObl.v"), "\n".join(obl) + "\n")
    side = {"classes": classes, "crc": {c["name"]: TS.crc(c["name"]) for c in classes}}
    V.write_if_changed(os.path.join(V.VERIF, "gen", "C16-fields.json"), json.dumps(side, indent=1) + "\n")
    return side


if __name__ == "__main__":
    s = generate()
    for c in s["classes"]:
        unc = [f for f in c["fields"] if not (f["store"] and f["load"])]
        print("%-34s %2d members, not transferred both ways: %s" % (c["name"], len(c["fields"]), ", ".join(
            "%s[%s%s]:%s" % (f["name"], "S" if f["store"] else "-", "L" if f["load"] else "-", f["type"]) for f in unc)))
        for e in c["enums"]:
            print("      enum %s : %s store(%s) load %s -> (%s) %s" % (e["name"], e["enum"], e["store_cast"], e["load_tmp_type"], e["load_cast"],
                                                                    "ok" if enum_ok(c, e) else "NOT OK"))
