"""C18 translator unit 2: scope guards in constructors (JanitorMemFunCall) and adopting containers.

Reads from /repo's current source
  * every function that arms `CleanupType cleanup(this, &C::fn)` (util/Janitor.hpp: JanitorMemFunCall): the members the function
    (and the member functions it calls, and the initialiser list) allocates, the members `C::fn` (and what it calls) releases,
    the members the destructor releases, where `cleanup.release()` stands                 -> coq/theories/Gen/GenC18Janitor.v
  * the statement shapes of Janitor<T> / ArrayJanitor<T> / JanitorMemFunCall<T> (util/Janitor.c) and of the adopting containers
    BaseRefVectorOf<T> / RefVectorOf<T> (util/BaseRefVectorOf.c, util/RefVectorOf.c) the Gallina model follows, as booleans
A construct that can no longer be read raises (the check reports a broken tie)."""
import os
import re
import sys

sys.path.insert(0, os.path.join(os.path.dirname(os.path.dirname(os.path.abspath(__file__))), "lib"))
import vcommon as V  # noqa


def strip_comments(txt):
    txt = re.sub(r"/\*.*?\*/", lambda m: " " * 1, txt, flags=re.S)
    return re.sub(r"//[^\n]*", " ", txt)


def match_brace(txt, i):
    """index of the brace closing the one at txt[i]"""
    depth = 0
    for j in range(i, len(txt)):
        if txt[j] == "{":
            depth += 1
        elif txt[j] == "}":
            depth -= 1
            if depth == 0:
                return j
    raise ValueError("unbalanced braces")


def functions(txt):
    """member function definitions of a .cpp: list of dict(cls, name, init, body)"""
    out = []
    for m in re.finditer(r"(?m)^[^\n;{}#]*?\b(\w+)::(~?\w+)\s*\(", txt):
        # parameter list
        i = m.end() - 1
        depth = 0
        j = i
        while j < len(txt):
            if txt[j] == "(":
                depth += 1
            elif txt[j] == ")":
                depth -= 1
                if depth == 0:
                    break
            j += 1
        k = j + 1
        # up to the opening brace at paren depth 0; a ';' first means a declaration / call, not a definition
        depth = 0
        ok = False
        while k < len(txt):
            c = txt[k]
            if c == "(":
                depth += 1
            elif c == ")":
                depth -= 1
            elif c == ";" and depth == 0:
                break
            elif c == "{" and depth == 0:
                ok = True
                break
            k += 1
        if not ok:
            continue
        e = match_brace(txt, k)
        out.append(dict(cls=m.group(1), name=m.group(2), init=txt[j + 1:k], body=txt[k + 1:e], start=m.start(), end=e))
    # drop definitions nested in a previous one (calls like A::b( inside a body matched at line start)
    res = []
    last_end = -1
    for f in out:
        if f["start"] > last_end:
            res.append(f)
            last_end = f["end"]
    return res


ALLOC_RHS = r"(?:new\b|\([^()]*\*\s*\)\s*\(?\s*\w+(?:->|\.)allocate\s*\(|\w+(?:->|\.)allocate\s*\(|XMLString::replicate\s*\(|XMLString::transcode\s*\()"


def allocs_in(body):
    """members assigned from new / allocate / replicate in a statement list and not handed over to another owner
    (x->setY(fX) / put / add / adopt in the same function)"""
    out = []
    for m in re.finditer(r"\b(f[A-Z]\w*)\s*=\s*" + ALLOC_RHS, body):
        if re.search(r"(?:->|\.)\s*(?:set|put|add|adopt)\w*\s*\([^;]*\b%s\b" % m.group(1), body):
            continue
        if m.group(1) not in out:
            out.append(m.group(1))
    return out


def allocs_in_init(init):
    out = []
    for m in re.finditer(r"\b(f[A-Z]\w*)\s*\(\s*" + ALLOC_RHS, init):
        if m.group(1) not in out:
            out.append(m.group(1))
    return out


def frees_in(body):
    out = []
    for m in re.finditer(r"\bdelete\s*(?:\[\s*\])?\s*(f[A-Z]\w*)\s*;|deallocate\s*\(\s*(?:\([^()]*\)\s*)?(f[A-Z]\w*)\s*\)"
                         r"|XMLString::release\s*\(\s*&\s*(f[A-Z]\w*)\s*,", body):
        n = m.group(1) or m.group(2) or m.group(3)
        if n not in out:
            out.append(n)
    return out


def closure(fmap, cls, name, what, seen=None, skip=(), depth=3):
    """what() over the body of cls::name and of the member functions of cls it calls (defined in the same file / its header),
    followed [depth] calls deep"""
    seen = seen if seen is not None else set()
    if (cls, name) in seen or (cls, name) not in fmap or depth < 0:
        return []
    seen.add((cls, name))
    out = []
    for f in fmap[(cls, name)]:
        for x in what(f["body"]):
            if x not in out:
                out.append(x)
        for m in re.finditer(r"(?<![\w.>:])(\w+)\s*\(", f["body"]):
            callee = m.group(1)
            if callee in skip or callee == name:
                continue
            for x in closure(fmap, cls, callee, what, seen, skip, depth - 1):
                if x not in out:
                    out.append(x)
    return out


def guard_sites(repo):
    """one record per function that arms JanitorMemFunCall on `this`"""
    recs = []
    root = os.path.join(repo, "src", "xercesc")
    files = []
    for dp, _, fns in os.walk(root):
        for fn in fns:
            if fn.endswith(".cpp"):
                files.append(os.path.join(dp, fn))
    for path in sorted(files):
        raw = open(path, encoding="latin-1").read()
        if "cleanup(this" not in raw.replace(" ", ""):
            continue
        txt = strip_comments(raw)
        hpp = path[:-4] + ".hpp"
        if os.path.exists(hpp):                  # inline definitions (cleanUp is often inline in the header)
            txt += "\n" + strip_comments(open(hpp, encoding="latin-1").read())
        fs = functions(txt)
        fmap = {}
        for f in fs:
            fmap.setdefault((f["cls"], f["name"]), []).append(f)
        for idx, f in enumerate(fs):
            m = re.search(r"\bCleanupType\s+cleanup\s*\(\s*this\s*,\s*&\s*(\w+)::(\w+)\s*\)\s*;", f["body"])
            if not m:
                continue
            cls, fn = m.group(1), m.group(2)
            body = f["body"]
            after = body[m.end():]
            # text of the catch(OutOfMemoryException) handlers is taken out: releasing there is the library's stated policy
            # (an OutOfMemoryException must not run code that may allocate), it is outside the modelled exits
            noc = re.sub(r"catch\s*\(\s*const\s+OutOfMemoryException\s*&\s*\)\s*\{[^{}]*\}", " ", after)
            rel = [x.start() for x in re.finditer(r"\bcleanup\s*\.\s*release\s*\(\s*\)\s*;", noc)]
            tail = noc[rel[-1]:] if rel else ""
            tail = re.sub(r"\bcleanup\s*\.\s*release\s*\(\s*\)\s*;", "", tail, count=1)
            release_last = bool(rel) and re.fullmatch(r"[\s}]*", tail) is not None
            # work (calls / allocations) between the first release and the end: anything there is no longer guarded
            first_tail = noc[rel[0]:] if rel else ""
            first_tail = re.sub(r"\bcleanup\s*\.\s*release\s*\(\s*\)\s*;", "", first_tail)
            unguarded_work = bool(re.search(r"\w\s*\(|\bnew\b", first_tail))
            is_ctor = f["name"] == f["cls"]
            one = {(f["cls"], f["name"]): [f]}
            one.update({k: v for k, v in fmap.items() if k != (f["cls"], f["name"])})
            init_allocated = allocs_in_init(f["init"]) if is_ctor else []
            allocated = list(init_allocated)
            for x in closure(one, f["cls"], f["name"], allocs_in, skip=(fn,), depth=2):
                if x not in allocated:
                    allocated.append(x)
            released = closure(fmap, cls, fn, frees_in)
            dtor = closure(fmap, cls, "~" + cls, frees_in)
            recs.append(dict(file=os.path.relpath(path, repo), cls=f["cls"], fn=f["name"], ordinal=idx, ctor=is_ctor, guard=fn,
                             allocated=allocated, init_allocated=init_allocated, released=released, dtor=dtor, release_last=release_last,
                             has_release=bool(rel),
                             unguarded_work=unguarded_work, has_guard_fn=(cls, fn) in fmap))
    return recs


def janitor_shapes(repo):
    """statement shapes of util/Janitor.c the Gallina models (Model18J.v) follow"""
    txt = re.sub(r"\s+", " ", strip_comments(open(os.path.join(repo, "src/xercesc/util/Janitor.c"), encoding="latin-1").read()))

    def fn(header):
        m = re.search(header, txt)
        if not m:
            raise ValueError("Janitor.c: %s not found" % header)
        i = txt.index("{", m.end() - 1)
        return txt[i:match_brace(txt, i) + 1]
    sh = {
        "janitor_dtor_resets": "reset();" in fn(r"Janitor<T>::~Janitor\(\)\s*\{"),
        "janitor_release": re.search(r"T\* p = fData; fData = 0; return p;", fn(r"Janitor<T>::release\(\)\s*\{")) is not None,
        "janitor_reset_deletes": re.search(r"if \(fData\) delete fData; fData = p;", fn(r"Janitor<T>::reset\(T\* p\)\s*\{")) is not None,
        "array_dtor_resets": "reset();" in fn(r"ArrayJanitor<T>::~ArrayJanitor\(\)\s*\{"),
        "array_release": re.search(r"T\* p = fData; fData = 0; return p;", fn(r"ArrayJanitor<T>::release\(\)\s*\{")) is not None,
        "array_reset_same_manager": re.search(r"if \(fData\) \{ if \(fMemoryManager\) fMemoryManager->deallocate\(\(void\*\)fData\); else delete \[\] fData; \} fData = p;",
                                              fn(r"ArrayJanitor<T>::reset\(T\* p\)\s*\{")) is not None,
        "memfun_dtor_resets": "reset ();" in fn(r"JanitorMemFunCall<T>::~JanitorMemFunCall\(\)\s*\{") or "reset();" in fn(r"JanitorMemFunCall<T>::~JanitorMemFunCall\(\)\s*\{"),
        "memfun_release": re.search(r"T\* p = fObject; fObject = 0; return p;", fn(r"JanitorMemFunCall<T>::release\(\)\s*\{")) is not None,
        "memfun_reset_calls": re.search(r"if \(fObject != 0 && fToCall != 0\) \(fObject->\*fToCall\)\(\); fObject = p;",
                                        fn(r"JanitorMemFunCall<T>::reset\(T\* p\)\s*\{")) is not None,
    }
    return sh


def coq_nlist(l):
    return "[" + "; ".join(str(x) for x in l) + "]"


def generate(repo, gendir):
    recs = guard_sites(repo)
    if len(recs) < 20:
        raise ValueError("only %d guarded constructors found: JanitorMemFunCall sites are no longer readable" % len(recs))
    shapes = janitor_shapes(repo)
    lines = ["(** GENERATED by translator/c18_janitor.py from the functions of /repo that arm `CleanupType cleanup(this, &C::fn)` and from",
             "    util/Janitor.c -- do not edit.  Slots are indices into the member-name table printed beside each site. *)",
             "From Coq Require Import NArith List String.", "From XV Require Import C18.Model18J.", "Import ListNotations.",
             "Local Open Scope N_scope.", ""]
    entries = []
    for r in recs:
        names = []
        for x in r["allocated"] + r["released"] + r["dtor"]:
            if x not in names:
                names.append(x)
        idx = {n: i for i, n in enumerate(names)}
        r["names"] = names
        init = [idx[x] for x in r.get("init_allocated", [])]
        body = [idx[x] for x in r["allocated"] if x not in r.get("init_allocated", [])]
        has_release = r["has_release"]
        late = (not r["release_last"]) or r["unguarded_work"]
        if has_release:
            bodytxt = "body_of %s %s" % (coq_nlist(body), "true" if late else "false")
        else:                   # no cleanup.release() at all: the guard fires on the normal exit too
            bodytxt = "(JCall :: flat_map (fun s => [JAlloc s; JCall]) %s)" % coq_nlist(body)
        # a guard function that cannot be read releases nothing
        cl = [idx[x] for x in r["released"]]
        dt = [idx[x] for x in r["dtor"]]
        entries.append('  (* %s %s::%s #%d  members: %s *)\n  ("%s::%s#%d"%%string, {| c_init := %s; c_body := %s; c_cleanup := %s; c_dtor := %s |})'
                       % (r["file"], r["cls"], r["fn"], r["ordinal"], " ".join("%d=%s" % (i, n) for i, n in enumerate(names)),
                          r["cls"], r["fn"], r["ordinal"], coq_nlist(init), bodytxt, coq_nlist(cl), coq_nlist(dt)))
    lines.append("Definition guard_sites : list (string * jctor) := [\n" + ";\n".join(entries) + "\n].")
    lines.append("")
    lines.append("(** statement shapes of util/Janitor.c the models follow (destructor = reset(); release() forgets; reset() releases the held block")
    lines.append("    through the manager it was given / calls the member function) *)")
    lines.append("Definition janitor_shapes : list (string * bool) := [\n" +
                 ";\n".join('  ("%s"%%string, %s)' % (k, "true" if v else "false") for k, v in sorted(shapes.items())) + "\n].")
    V.write_if_changed(os.path.join(gendir, "GenC18Janitor.v"), "\n".join(lines) + "\n")
    return dict(sites=recs, shapes=shapes)


if __name__ == "__main__":
    import json
    for r in guard_sites(V.REPO):
        miss = [x for x in r["allocated"] if x not in r["released"]]
        print(r["file"], r["cls"] + "::" + r["fn"], "guard=" + r["guard"], "alloc=", r["allocated"], "rel=", r["released"], "MISSING=" + str(miss) if miss else "",
              "" if r["release_last"] else "RELEASE-NOT-LAST", "UNGUARDED-WORK" if r["unguarded_work"] else "", "" if r["has_guard_fn"] else "NO-GUARD-FN")
