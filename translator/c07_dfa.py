#!/usr/bin/env python3
"""Translator unit for C07: read, from /repo's *current* source, the constants and the shape of the optimisation in
DFAContentModel::buildDFA / CMStateSet that decide HOW the follow sets of a state are united (the model abstracts
this away, so the generator must aim at it): bits per word used by CMStateSet::getBitCountInRange, the number of
cached words before CMStateSet switches to the chunked representation, the chunk size, and the strategy test
`fNumItems <= getBitCountInRange(first, last) * log(fNumItems)` (linear scan over the leaves of a name vs.
enumerating the state's bits with a binary search)."""
import os
import re
import sys

sys.path.insert(0, os.path.join(os.path.dirname(os.path.abspath(__file__)), "..", "lib"))
import vcommon as V


class TranslateError(Exception):
    pass


def read():
    d = os.path.join(V.REPO, "src", "xercesc", "validators", "common")
    hpp = open(os.path.join(d, "CMStateSet.hpp")).read()
    cpp = open(os.path.join(d, "DFAContentModel.cpp")).read()
    out = {}
    for name in ("CMSTATE_CACHED_INT32_SIZE", "CMSTATE_BITFIELD_CHUNK"):
        m = re.search(r"#define\s+" + name + r"\s+(\d+)", hpp)
        if not m:
            raise TranslateError("constant %s not found in CMStateSet.hpp" % name)
        out[name] = int(m.group(1))
    m = re.search(r"getBitCountInRange\s*\([^)]*\)\s*const\s*\{.*?end\s*/=\s*(\d+)\s*;", hpp, flags=re.S)
    if not m:
        raise TranslateError("word size of CMStateSet::getBitCountInRange not found")
    out["WORD"] = int(m.group(1))
    if not re.search(r"fNumItems\s*<=\s*setT->getBitCountInRange\s*\(\s*fLeafIndexes\[1\]\s*,\s*fLeafIndexes\[fNumItems\]\s*\)"
                     r"\s*\*\s*log\s*\(\s*\(float\)\s*fNumItems\s*\)", cpp):
        raise TranslateError("the strategy test of DFAContentModel::buildDFA (linear scan vs. bit enumeration) changed")
    return out


if __name__ == "__main__":
    print(read())
