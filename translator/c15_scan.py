"""T-scan (C15): scanner data-member inventory and per-parse reset sets, regenerated from /repo's source.

For the classes XMLScanner, IGXMLScanner, WFXMLScanner, DGXMLScanner, SGXMLScanner, ReaderMgr, ElemStack and
ValidationContextImpl this reads the data-member declarations from the headers and, from the .cpp/.hpp bodies, what
the per-parse reset code of each class does to every member:

    RNo            not touched by the reset code
    RAssign e      the member itself is written:  fX = e;  fX++;  deallocate(fX)/delete fX (followed by fX = 0)
                   `e` is a small expression AST when the right-hand side is a boolean/constant expression over
                   members, EOpaque otherwise, EIncr for ++/--/+=
    RCall          a mutating method is invoked on it: ->reset( ->removeAll( ->removeAllElements( ->setXxx( .reset(
                   .createReader( .pushReader( ...  or it is handed to a janitor (&fX, &C::reset)

The reset code of a scanner S is: the statements of S::scanDocument(const InputSource&) up to the call of scanReset,
the body of S::scanReset(const InputSource&), and (transitively) the bodies of the member functions of S / XMLScanner
called from there (resetValidationContext, resetPSVIElemContext, resetUIntPool, recreateUIntPool, ...).
For ReaderMgr it is ReaderMgr::reset, for ElemStack ElemStack::reset, for ValidationContextImpl the two calls made
by XMLScanner::resetValidationContext (clearIdRefList, setEntityDeclPool).

Output: coq/theories/Gen/GenScannerFields.v and gen/C15_scanner_fields.json (sidecar for the python check).
Conditions guarding an assignment are ignored (an assignment under `if` counts as an assignment)."""
import json
import os
import re
import sys

sys.path.insert(0, os.path.join(os.path.dirname(os.path.dirname(os.path.abspath(__file__))), "lib"))
import vcommon as V  # noqa

INTERNAL = "src/xercesc/internal"

CLASSES = [
    # (class, header, reset entry points [(class, function, "prefix-until" or None[, parameter-list marker of the overload])],
    #  helper classes searched for callee bodies)
    ("XMLScanner", "XMLScanner.hpp", None, None),
    ("IGXMLScanner", "IGXMLScanner.hpp", [("IGXMLScanner", "scanDocument", "scanReset"), ("IGXMLScanner", "scanReset", None)],
     ["IGXMLScanner", "XMLScanner"]),
    ("WFXMLScanner", "WFXMLScanner.hpp", [("WFXMLScanner", "scanDocument", "scanReset"), ("WFXMLScanner", "scanReset", None)],
     ["WFXMLScanner", "XMLScanner"]),
    ("DGXMLScanner", "DGXMLScanner.hpp", [("DGXMLScanner", "scanDocument", "scanReset"), ("DGXMLScanner", "scanReset", None)],
     ["DGXMLScanner", "XMLScanner"]),
    ("SGXMLScanner", "SGXMLScanner.hpp", [("SGXMLScanner", "scanDocument", "scanReset"), ("SGXMLScanner", "scanReset", None)],
     ["SGXMLScanner", "XMLScanner"]),
    ("ReaderMgr", "ReaderMgr.hpp", [("ReaderMgr", "reset", None)], ["ReaderMgr"]),
    ("ElemStack", "ElemStack.hpp", [("ElemStack", "reset", None)], ["ElemStack"]),
    ("ValidationContextImpl", "ValidationContextImpl.hpp",
     [("ValidationContextImpl", "clearIdRefList", None), ("ValidationContextImpl", "setEntityDeclPool", None)],
     ["ValidationContextImpl"]),
    # ---- parser objects on top of the scanner: what the start of a parse does to every member
    #      (parse(const InputSource&) up to the scanDocument call = busy flag; reset()/resetDocument() = the
    #      XMLDocumentHandler::resetDocument callback every scanReset makes)
    ("AbstractDOMParser", "parsers/AbstractDOMParser.hpp",
     [("AbstractDOMParser", "parse", "scanDocument", "InputSource"), ("AbstractDOMParser", "reset", None)], ["AbstractDOMParser"]),
    ("DOMLSParserImpl", "parsers/DOMLSParserImpl.hpp",
     [("DOMLSParserImpl", "parse", r"AbstractDOMParser\s*::\s*parse", "DOMLSInput")], ["DOMLSParserImpl"]),
    ("SAXParser", "parsers/SAXParser.hpp",
     [("SAXParser", "parse", "scanDocument", "InputSource"), ("SAXParser", "resetDocument", None)], ["SAXParser"]),
    ("SAX2XMLReaderImpl", "parsers/SAX2XMLReaderImpl.hpp",
     [("SAX2XMLReaderImpl", "parse", "scanDocument", "InputSource"), ("SAX2XMLReaderImpl", "resetDocument", None)],
     ["SAX2XMLReaderImpl"]),
    # ---- objects the scanners reset by a call (RCall rows above): what that call does inside
    ("GrammarResolver", "validators/common/GrammarResolver.hpp",
     [("GrammarResolver", "cacheGrammarFromParse", None), ("GrammarResolver", "useCachedGrammarInParse", None)], ["GrammarResolver"]),
    ("IdentityConstraintHandler", "validators/schema/identity/IdentityConstraintHandler.hpp",
     [("IdentityConstraintHandler", "reset", None)], ["IdentityConstraintHandler"]),
    ("ValueStoreCache", "validators/schema/identity/ValueStoreCache.hpp",
     [("ValueStoreCache", "startDocument", None)], ["ValueStoreCache"]),
    ("SchemaValidator", "validators/schema/SchemaValidator.hpp", [("SchemaValidator", "reset", None)], ["SchemaValidator"]),
]
SCANNERS = ["IGXMLScanner", "WFXMLScanner", "DGXMLScanner", "SGXMLScanner"]

MUTATORS = ("reset", "removeAll", "removeAllElements", "removeAllElement", "cleanup", "clear", "flush", "createReader",
            "pushReader", "addOrFind", "put", "cacheGrammarFromParse", "useCachedGrammarInParse", "putGrammar",
            "deallocate", "resetDocument", "resetEntities", "resetErrors", "clearIdRefList", "flushAll", "startDocument")


class ScanError(Exception):
    pass


def strip_comments(t):
    t = re.sub(r"/\*.*?\*/", lambda m: re.sub(r"[^\n]", " ", m.group(0)), t, flags=re.S)
    t = re.sub(r"//[^\n]*", "", t)
    return t


def match_brace(t, i, op="{", cl="}"):
    """t[i] == op; returns index just after the matching closer"""
    assert t[i] == op
    d = 0
    for k in range(i, len(t)):
        c = t[k]
        if c == op:
            d += 1
        elif c == cl:
            d -= 1
            if d == 0:
                return k + 1
    raise ScanError("unbalanced %s at %d" % (op, i))


def class_body(text, cls):
    m = re.search(r"\bclass\s+(?:[A-Z_]+\s+)?%s\b[^;{]*\{" % re.escape(cls), text)
    if not m:
        raise ScanError("class %s not found" % cls)
    st = m.end() - 1
    en = match_brace(text, st)
    return text[st + 1:en - 1]


def depth0(body):
    """remove every nested {...} block (inline function bodies, nested structs)"""
    out = []
    d = 0
    for c in body:
        if c == "{":
            d += 1
            continue
        if c == "}":
            d -= 1
            continue
        if d == 0:
            out.append(c)
    return "".join(out)


MEMBER_RE = re.compile(r"^\s*((?:const\s+|unsigned\s+|mutable\s+)*[A-Za-z_][\w:]*(?:\s*<[^;()]*>)?(?:\s+const)?[\s\*&]*(?:const\s+)?)"
                       r"\b(f[A-Z]\w*)\s*(\[[^\]]*\])?\s*;\s*$")


def members_of(text, cls):
    body = depth0(class_body(text, cls))
    out = []
    for stmt in body.split(";"):
        s = " ".join((stmt + ";").split())
        # drop access labels glued in front of a declaration
        s = re.sub(r"^(?:(?:public|private|protected)\s*:\s*)+", "", s)
        if "(" in s or s.startswith(("friend", "typedef", "enum", "class", "struct", "using", "static")):
            continue
        m = MEMBER_RE.match(s)
        if m:
            ty = " ".join(m.group(1).split()).replace(" *", "*").replace("* ", "*")
            out.append((m.group(2), ty + (m.group(3) or "")))
    if not out:
        raise ScanError("no data members found for %s" % cls)
    return out


def find_function(texts, cls, fn, first_param=None):
    """body text of `cls::fn(...) {...}`; with first_param, the overload whose parameter list mentions it"""
    pat = re.compile(r"\b%s\s*::\s*%s\s*\(" % (re.escape(cls), re.escape(fn)))
    for t in texts:
        for m in pat.finditer(t):
            p_end = match_brace(t, m.end() - 1, "(", ")")
            params = t[m.end():p_end - 1]
            k = p_end
            # skip const / initialiser-free whitespace up to '{' ; a ';' first means a declaration / call
            mm = re.compile(r"\s*(?:const\s*)?\{").match(t, k)
            if not mm:
                continue
            if first_param and first_param not in params:
                continue
            b_st = mm.end() - 1
            b_en = match_brace(t, b_st)
            return t[b_st + 1:b_en - 1]
    return None


def split_statements(body):
    """flat list of statements (text between ; { }), good enough for assignment / call recognition"""
    return [s.strip() for s in re.split(r"[;{}]", body) if s.strip()]


def parse_expr(rhs, member_names):
    """small boolean/constant expression AST over members; anything else -> ("opaque",)"""
    s = rhs.strip()
    toks = re.findall(r"&&|\|\||==|!=|[()!?:]|[\w:.>-]+", s)
    if "".join(toks) != re.sub(r"\s+", "", s):
        return ("opaque",)
    pos = [0]

    def peek():
        return toks[pos[0]] if pos[0] < len(toks) else None

    def eat():
        pos[0] += 1
        return toks[pos[0] - 1]

    def atom():
        t = peek()
        if t is None:
            raise ValueError
        if t == "(":
            eat()
            e = tern()
            if eat() != ")":
                raise ValueError
            return e
        if t == "!":
            eat()
            return ("not", atom())
        eat()
        if t in ("true",):
            return ("const", 1)
        if t in ("false", "0", "NULL"):
            return ("const", 0)
        if re.fullmatch(r"\d+", t):
            return ("const", int(t))
        if t in member_names:
            return ("var", t)
        if re.fullmatch(r"(?:\w+::)*[A-Z]\w*", t):
            return ("sym", t)           # enum constant
        raise ValueError

    def cmp_():
        a = atom()
        if peek() in ("==", "!="):
            op = eat()
            b = atom()
            e = ("eq", a, b)
            return e if op == "==" else ("not", e)
        return a

    def and_():
        a = cmp_()
        while peek() == "&&":
            eat()
            a = ("and", a, cmp_())
        return a

    def or_():
        a = and_()
        while peek() == "||":
            eat()
            a = ("or", a, and_())
        return a

    def tern():
        c = or_()
        if peek() == "?":
            eat()
            a = tern()
            if eat() != ":":
                raise ValueError
            b = tern()
            return ("if", c, a, b)
        return c

    try:
        e = tern()
        if pos[0] != len(toks):
            return ("opaque",)
        return e
    except (ValueError, IndexError):
        return ("opaque",)


def expr_vars(e):
    if e[0] == "var":
        return {e[1]}
    out = set()
    for x in e[1:]:
        if isinstance(x, tuple):
            out |= expr_vars(x)
    return out


def scan_effects(body, names, texts, helper_classes, seen, depth=0, types={}):
    """returns dict member -> ("assign", expr, text) | ("call", text); assign dominates"""
    eff = {}

    def put(n, v):
        if n not in eff or (eff[n][0] == "call" and v[0] == "assign"):
            eff[n] = v

    for st in split_statements(body):
        s = " ".join(st.split())
        # strip leading control keywords:  if (cond) stmt   /  else stmt
        s2 = s
        while True:
            m = re.match(r"^(?:else\s+)?(?:if|while)\s*\(", s2)
            if m:
                e = match_brace(s2, m.end() - 1, "(", ")")
                s2 = s2[e:].strip()
                continue
            if s2.startswith("else "):
                s2 = s2[5:].strip()
                continue
            break
        if not s2:
            continue
        m = re.match(r"^(f[A-Z]\w*)\s*(=|\+=|-=|\|=|&=)\s*(?!=)(.*)$", s2)
        if m and m.group(1) in names:
            if m.group(2) == "=":
                lhs = [m.group(1)]
                rhs = m.group(3)
                while True:                      # chained  fA = fB = 0
                    mc = re.match(r"^(f[A-Z]\w*)\s*=\s*(?!=)(.*)$", rhs)
                    if not (mc and mc.group(1) in names):
                        break
                    lhs.append(mc.group(1))
                    rhs = mc.group(2)
                for l in lhs:
                    e = parse_expr(rhs, names)
                    if "*" in types.get(l, "") and e[0] != "const":
                        e = ("opaque",)          # pointer members: object identity is not a value the model tracks
                    put(l, ("assign", e, s2))
            else:
                put(m.group(1), ("assign", ("incr",), s2))
        m = re.match(r"^(f[A-Z]\w*)\s*\.\s*f[A-Z]\w*\s*=\s*(?!=)", s2)
        if m and m.group(1) in names:
            put(m.group(1), ("call", s2))       # a field of a member struct is written
            # the right-hand side may itself call a mutator on another member (fX = fPool->addOrFind(..))
        m = re.match(r"^(?:\+\+|--)\s*(f[A-Z]\w*)$|^(f[A-Z]\w*)\s*(?:\+\+|--)$", s2)
        if m and (m.group(1) or m.group(2)) in names:
            put(m.group(1) or m.group(2), ("assign", ("incr",), s2))
        for m in re.finditer(r"\b(f[A-Z]\w*)\s*(?:->|\.)\s*(\w+)\s*\(", s2):
            n, meth = m.group(1), m.group(2)
            if n in names and (meth in MUTATORS or meth.startswith(("set", "reset", "remove", "clear", "add"))):
                put(n, ("call", s2))
        for m in re.finditer(r"\b(?:deallocate|delete|memset)\s*\(?\s*(f[A-Z]\w*)\b(?!\s*(?:->|\.))", s2):
            if m.group(1) in names:
                put(m.group(1), ("call", s2))
        for m in re.finditer(r"&\s*(f[A-Z]\w*)\s*,\s*&\s*\w+::reset\b", s2):
            if m.group(1) in names:
                put(m.group(1), ("call", s2))           # janitor: object reset on every exit path
        # calls of sibling member functions: inline their effects
        if depth < 3:
            for m in re.finditer(r"(?<![\w>.:])([a-z]\w*)\s*\(", s2):
                fn = m.group(1)
                if fn in ("if", "while", "for", "switch", "return", "sizeof", "new", "delete", "memset", "catch"):
                    continue
                for hc in helper_classes:
                    if (hc, fn) in seen:
                        break
                    b = find_function(texts, hc, fn)
                    if b is not None:
                        seen.add((hc, fn))
                        for n, v in scan_effects(b, names, texts, helper_classes, seen, depth + 1, types).items():
                            put(n, v)
                        break
    return eff


def split_args(argtext):
    out, d, cur = [], 0, ""
    for c in argtext:
        if c in "(<[" and not (c == "<" and d == 0 and False):
            d += c != "<"
        elif c in ")]":
            d -= 1
        if c == "," and d == 0:
            out.append(cur.strip())
            cur = ""
        else:
            cur += c
    out.append(cur.strip())
    return out


SEL_RE = re.compile(r"(!?\s*\w+)\s*\?\s*fCachedSchemaInfoList\s*:\s*fSchemaInfoList")


def scan_cache_lists(texts):
    """how the two SchemaInfo tables (fSchemaInfoList: cleared by every scanReset; fCachedSchemaInfoList: cleared by
    resetCachedGrammar only) are selected in the schema-loading functions of IG and SG:
       lookup  the table TraverseSchema consults for already-traversed schemas (5th constructor argument)
       store   the table new SchemaInfo objects go into (6th constructor argument; the resetRoot enumerator)
       seen-cached / seen-transient   the guarded `->get(sysId, uriId)` tests "this exact schema has already been seen" """
    rows = []
    for sc in ("IGXMLScanner", "SGXMLScanner"):
        for fn in ("resolveSchemaGrammar", "loadXMLSchemaGrammar"):
            body = find_function(texts, sc, fn)
            if body is None:
                raise ScanError("%s::%s not found" % (sc, fn))
            for m in re.finditer(r"TraverseSchema\s+\w+\s*\(", body):
                e = match_brace(body, m.end() - 1, "(", ")")
                args = split_args(body[m.end():e - 1])
                if len(args) < 6:
                    raise ScanError("%s::%s: TraverseSchema call shape changed" % (sc, fn))
                for idx, slot in ((4, "lookup"), (5, "store")):
                    a = " ".join(args[idx].split())
                    mm = SEL_RE.fullmatch(a)
                    if mm:
                        rows.append((sc, fn, slot, mm.group(1).replace(" ", "")))
                    elif a == "fCachedSchemaInfoList":
                        rows.append((sc, fn, slot, "always"))
                    elif a == "fSchemaInfoList":
                        rows.append((sc, fn, slot, "never"))
                    else:
                        rows.append((sc, fn, slot, "?" + a[:40]))
            for m in re.finditer(r"RefHash2KeysTableOfEnumerator\s*<\s*SchemaInfo\s*>\s*\w+\s*\(", body):
                e = match_brace(body, m.end() - 1, "(", ")")
                a = " ".join(body[m.end():e - 1].split())
                mm = SEL_RE.fullmatch(a)
                rows.append((sc, fn, "store", mm.group(1).replace(" ", "") if mm else ("always" if a == "fCachedSchemaInfoList" else
                                                                                       "never" if a == "fSchemaInfoList" else "?" + a[:40])))
            for m in re.finditer(r"if\s*\(([^;{}]*?)\)\s*\w+\s*=\s*(fCachedSchemaInfoList|fSchemaInfoList)\s*->\s*get\s*\(", body):
                cond = "".join(m.group(1).split())
                rows.append((sc, fn, "seen-cached" if m.group(2) == "fCachedSchemaInfoList" else "seen-transient", cond))
            for m in re.finditer(r"(?<![?:\w])\s*(\w+)\s*=\s*(fCachedSchemaInfoList|fSchemaInfoList)\s*->\s*get\s*\(", body):
                pre = body[max(0, m.start() - 60):m.start()]
                if not re.search(r"if\s*\([^;{}]*\)\s*$", pre):
                    rows.append((sc, fn, "seen-cached" if m.group(2) == "fCachedSchemaInfoList" else "seen-transient", "always"))
    return rows


def load_sources(repo):
    d = os.path.join(repo, INTERNAL)
    texts = {}
    for f in sorted(os.listdir(d)):
        if f.endswith((".cpp", ".hpp")):
            texts[f] = strip_comments(open(os.path.join(d, f), encoding="utf-8", errors="replace").read())
    # the classes outside internal/ : only the files named after a scanned class (key = path relative to src/xercesc)
    wanted = {os.path.splitext(h)[0] for _c, h, _e, _h in CLASSES if "/" in h}
    for h in sorted(wanted):
        for ext in (".hpp", ".cpp"):
            fp = os.path.join(repo, "src/xercesc", h + ext)
            if os.path.exists(fp):
                texts[h + ext] = strip_comments(open(fp, encoding="utf-8", errors="replace").read())
    return texts


def scan(repo=None):
    repo = repo or V.REPO
    texts = load_sources(repo)
    alltexts = list(texts.values())
    inv = {}
    for cls, hdr, entries, helpers in CLASSES:
        inv[cls] = {"members": members_of(texts[hdr], cls), "reset": {}}
    base = inv["XMLScanner"]["members"]
    for cls, hdr, entries, helpers in CLASSES:
        if entries is None:
            continue
        own = inv[cls]["members"]
        allm = (base + own) if cls in SCANNERS else own
        names = {n for n, _ in allm}
        eff = {}
        seen = set()
        for ent in entries:
            c, fn, until = ent[0], ent[1], ent[2]
            marker = ent[3] if len(ent) > 3 else ("InputSource" if fn in ("scanDocument", "scanReset") else None)
            body = find_function(alltexts, c, fn, marker)
            if body is None:
                raise ScanError("%s::%s not found" % (c, fn))
            seen.add((c, fn))
            if until:
                k = re.search(r"\b%s\s*\(" % until, body)
                if not k:
                    raise ScanError("%s::%s does not call %s any more" % (c, fn, until))
                body = body[:k.start()]
            for n, v in scan_effects(body, names, alltexts, helpers, seen, 0, dict(allm)).items():
                if n not in eff or (eff[n][0] == "call" and v[0] == "assign"):
                    eff[n] = v
        inv[cls]["all_members"] = allm
        inv[cls]["reset"] = eff
    return inv


# ------------------------------------------------------------------------------------------------------------------
def coq_expr(e):
    k = e[0]
    if k == "opaque":
        return "EOpaque"
    if k == "incr":
        return "EIncr"
    if k == "const":
        return "(EConst %d)" % e[1]
    if k == "var":
        return '(EVar "%s")' % e[1]
    if k == "sym":
        return '(ESym "%s")' % e[1]
    if k == "not":
        return "(ENot %s)" % coq_expr(e[1])
    if k in ("and", "or", "eq"):
        return "(E%s %s %s)" % (k.capitalize(), coq_expr(e[1]), coq_expr(e[2]))
    if k == "if":
        return "(EIf %s %s %s)" % (coq_expr(e[1]), coq_expr(e[2]), coq_expr(e[3]))
    raise ValueError(e)


def json_expr(e):
    return [e[0]] + [json_expr(x) if isinstance(x, tuple) else x for x in e[1:]]


HEADER = """(* GENERATED by translator/c15_scan.py from /repo/src/xercesc/internal -- do not edit.
   Inventory of the data members of the scanner classes and what the per-parse reset code does to each. *)
From Coq Require Import String List NArith.
Import ListNotations.
Local Open Scope string_scope.

Inductive rexpr : Type :=
| EOpaque | EIncr | EConst (n : nat) | EVar (m : string) | ESym (s : string)
| ENot (a : rexpr) | EAnd (a b : rexpr) | EOr (a b : rexpr) | EEq (a b : rexpr) | EIf (c a b : rexpr).

Inductive rkind : Type := RNo | RAssign (e : rexpr) | RCall.

(* one row per data member: (declaring class, member name, what the reset code does to it) *)
Definition inventory := list (string * string * rkind).

"""


def generate(repo=None):
    inv = scan(repo)
    out = [HEADER]
    side = {}
    for cls, hdr, entries, helpers in CLASSES:
        if entries is None:
            continue
        rows = []
        side[cls] = []
        allm = inv[cls]["all_members"]
        decl = {n: ("XMLScanner" if (cls in SCANNERS and (n, t) in inv["XMLScanner"]["members"]) else cls) for n, t in allm}
        for n, t in allm:
            eff = inv[cls]["reset"].get(n)
            if eff is None:
                rk, txt, je = "RNo", "", None
            elif eff[0] == "assign":
                rk, txt, je = "RAssign %s" % coq_expr(eff[1]), eff[2], json_expr(eff[1])
            else:
                rk, txt, je = "RCall", eff[1], None
            cm = (" " + txt.replace("(*", "( *").replace("*)", "* )")[:110]) if txt else ""
            rows.append('  ("%s", "%s", %s)   (* %s%s *)' % (decl[n], n, rk, t.replace("*)", "* )").replace("(*", "( *"),
                                                            (" |" + cm) if cm else ""))
            side[cls].append({"class": decl[n], "name": n, "type": t,
                              "reset": "no" if eff is None else eff[0], "expr": je, "text": txt})
        out.append("Definition inv_%s : inventory := [\n%s\n]%%list.\n\n" % (cls, ";\n".join(rows)))
    out.append("Definition all_inventories : list (string * inventory) := [\n%s\n]%%list.\n" % ";\n".join(
        '  ("%s", inv_%s)' % (c, c) for c, _, e, _ in CLASSES if e is not None))
    texts = list(load_sources(repo or V.REPO).values())
    cl = scan_cache_lists(texts)
    slotname = {"lookup": "LLookup", "store": "LStore", "seen-cached": "LSeenCached", "seen-transient": "LSeenTransient"}
    out.append("\n(* which flag selects the persistent SchemaInfo table (fCachedSchemaInfoList) rather than the per-parse one\n"
               "   (fSchemaInfoList) at each use in the schema-loading functions *)\n"
               "Inductive lslot : Type := LLookup | LStore | LSeenCached | LSeenTransient.\n"
               "Definition cache_list_uses : list (string * string * lslot * string) := [\n%s\n]%%list.\n" % ";\n".join(
                   '  ("%s", "%s", %s, "%s")' % (a, b, slotname[c], d.replace('"', "'")) for a, b, c, d in cl))
    side["cache_list_uses"] = [{"scanner": a, "function": b, "slot": c, "flag": d} for a, b, c, d in cl]
    changed = V.write_if_changed(os.path.join(V.COQ, "theories", "Gen", "GenScannerFields.v"), "".join(out))
    os.makedirs(os.path.join(V.VERIF, "gen"), exist_ok=True)
    V.write_if_changed(os.path.join(V.VERIF, "gen", "C15_scanner_fields.json"), json.dumps(side, indent=1))
    return side, changed


if __name__ == "__main__":
    s, ch = generate()
    for r in s.pop("cache_list_uses"):
        print("cache-list", r)
    for c, rows in s.items():
        print("== %s: %d members, %d reset" % (c, len(rows), sum(1 for r in rows if r["reset"] != "no")))
        for r in rows:
            print("   %-12s %-34s %-7s %s" % (r["class"], r["name"], r["reset"], (r["text"] or "")[:90]))
