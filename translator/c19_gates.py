"""T-gate: inventory of the stream-opening call sites of xerces-c with the guard expressions textually in
front of them  ->  coq/theories/Gen/GenGates.v.

For every call of createReader / makeStream / makeNewStream / makeNew / resolveEntity / parseSchemaLocation /
resolveSchemaGrammar / resolveSchemaLocation / preprocessImport|Include|Redefine and every
`new URLInputSource|LocalFileInputSource` in the scanners, the DTD scanner, the schema traverser and XInclude,
the generated entry is   (key, guards)   with
   key    = "<file>:<function>:<callee>#<n-th such call in the function>"
   guards = conditions of the enclosing `if (...)` blocks (an else branch gives "else:<cond>") followed by
            "unless:<cond>" for every earlier `if (<cond>) return/throw` of the function.
The Coq obligation (C19/Gates19.v) demands that every generated site is classified in the committed table and
still carries the guards the table requires; a new site, a vanished site or a dropped guard fails it."""
import os
import re

import vcommon as V

FILES = [
    "src/xercesc/internal/ReaderMgr.cpp", "src/xercesc/internal/XMLScanner.cpp", "src/xercesc/internal/IGXMLScanner.cpp",
    "src/xercesc/internal/IGXMLScanner2.cpp", "src/xercesc/internal/DGXMLScanner.cpp",
    "src/xercesc/internal/SGXMLScanner.cpp", "src/xercesc/internal/WFXMLScanner.cpp",
    "src/xercesc/internal/XSAXMLScanner.cpp", "src/xercesc/validators/DTD/DTDScanner.cpp",
    "src/xercesc/validators/schema/TraverseSchema.cpp", "src/xercesc/validators/schema/XSDDOMParser.cpp",
    "src/xercesc/xinclude/XIncludeUtils.cpp", "src/xercesc/framework/URLInputSource.cpp",
    "src/xercesc/framework/LocalFileInputSource.cpp", "src/xercesc/util/XMLURL.cpp",
]
CALLEES = ["createReader", "makeStream", "makeNewStream", "makeNew", "resolveEntity", "parseSchemaLocation",
           "resolveSchemaGrammar", "resolveSchemaLocation", "preprocessImport", "preprocessInclude",
           "preprocessRedefine", "URLInputSource", "LocalFileInputSource", "BinFileInputStream"]
CALL_RE = re.compile(r"(?:(?:->|\.)(parse)\s*\(\s*\*)|(?:(?:->|\.|\b)(createReader|makeStream|makeNewStream|makeNew|resolveEntity|parseSchemaLocation|"
                     r"resolveSchemaGrammar|resolveSchemaLocation|preprocessImport|preprocessInclude|preprocessRedefine)\s*\()"
                     r"|(?:new\s*(?:\([^()]*\))?\s*(URLInputSource|LocalFileInputSource|BinFileInputStream)\b)")


def strip(src):
    """remove comments, string/char literals and `#if 0 ... #else|#endif` blocks, keeping offsets line-stable"""
    out = []
    i, n = 0, len(src)
    while i < n:
        c = src[i]
        if src.startswith("//", i):
            j = src.find("\n", i)
            j = n if j < 0 else j
            i = j
        elif src.startswith("/*", i):
            j = src.find("*/", i + 2)
            j = n - 2 if j < 0 else j
            out.append("".join(ch if ch == "\n" else " " for ch in src[i:j + 2]))
            i = j + 2
        elif c == '"' or c == "'":
            j = i + 1
            while j < n and src[j] != c:
                j += 2 if src[j] == "\\" else 1
            out.append(c + " " * (j - i - 1) + c)
            i = j + 1
        else:
            out.append(c)
            i += 1
    txt = "".join(out)
    txt = re.sub(r"^[ \t]*#if\s+0\b.*?^[ \t]*#(?:else|endif)\b[^\n]*$", lambda m: re.sub(r"[^\n]", " ", m.group(0)),
                 txt, flags=re.S | re.M)
    return txt


def norm(cond):
    return re.sub(r"\s+", " ", cond).strip()


def match_paren(txt, i):
    """txt[i] == '(' -> index of the matching ')'"""
    depth = 0
    for j in range(i, len(txt)):
        if txt[j] == "(":
            depth += 1
        elif txt[j] == ")":
            depth -= 1
            if depth == 0:
                return j
    raise ValueError("unbalanced parenthesis")


def functions(txt):
    """yield (class::name, body_start, body_end) for every member-function definition that starts in column 0
    (`T C::f(args) {` or with the brace on its own line) and ends with a `}` in column 0"""
    endre = re.compile(r"^\}", re.M)
    pos = 0
    for m in re.finditer(r"^(?![ \t#}/])[^\n;{}()=]*?\b([A-Za-z_]\w*)::(~?[A-Za-z_]\w*)\s*\(", txt, flags=re.M):
        if m.start() < pos:
            continue
        try:
            q = match_paren(txt, m.end() - 1)
        except ValueError:
            continue
        k = q + 1
        # skip `const`, whitespace and a constructor's initialiser list up to the opening brace
        brace = txt.find("{", k)
        semi = txt.find(";", k)
        if brace < 0 or (0 <= semi < brace):
            continue
        end = endre.search(txt, brace)
        if not end:
            continue
        pos = end.end()
        yield m.group(1) + "::" + m.group(2), brace + 1, end.start()


def sites_of_function(txt, start, end):
    """walk the body, tracking enclosing if-conditions; returns [(callee, guards)] in textual order"""
    sites = []
    stack = []            # entries: condition text or None, one per open brace
    unless = []           # early exits seen so far
    pending = None        # condition whose statement/brace follows
    last_closed_if = None
    i = start
    while i < end:
        m = re.compile(r"\bif\s*\(|\belse\b|[{};]|" + CALL_RE.pattern).search(txt, i, end)
        if not m:
            break
        tok = m.group(0)
        if tok.startswith("if"):
            p = txt.index("(", m.start())
            q = match_paren(txt, p)
            cond = norm(txt[p + 1:q])
            # calls inside the condition itself
            for cm in CALL_RE.finditer(txt, p, q):
                sites.append((cm.group(1) or cm.group(2) or cm.group(3), [g for g in stack if g] + ["unless:" + u for u in unless]))
            if isinstance(pending, str) and pending.startswith("else:"):
                cond = pending + " && " + cond
            pending = cond
            i = q + 1
            # single statement (no brace)?
            k = i
            while k < end and txt[k] in " \t\r\n":
                k += 1
            if txt[k] != "{":
                semi = txt.find(";", k, end)
                stmt = txt[k:semi]
                if re.match(r"(return\b|Throw\w*\s*\(|throw\b)", stmt):
                    unless.append(cond)
                else:
                    for cm in CALL_RE.finditer(txt, k, semi):
                        sites.append((cm.group(1) or cm.group(2) or cm.group(3),
                                      [g for g in stack if g] + [cond] + ["unless:" + u for u in unless]))
                pending = None
                last_closed_if = cond
                i = semi + 1
            continue
        if tok == "else":
            pending = "else:" + (last_closed_if or "?")
            i = m.end()
            continue
        if tok == "{":
            stack.append(pending)
            pending = None
            i = m.end()
            continue
        if tok == "}":
            if stack:
                last_closed_if = stack.pop()
                if last_closed_if and last_closed_if.startswith("else:"):
                    last_closed_if = last_closed_if[5:]
            i = m.end()
            continue
        if tok == ";":
            pending = None if not (isinstance(pending, str) and pending.startswith("else:")) else None
            i = m.end()
            continue
        callee = m.group(1) or m.group(2) or m.group(3)
        g = [x for x in stack if x]
        if pending:
            g.append(pending)
        sites.append((callee, g + ["unless:" + u for u in unless]))
        i = m.end()
    return sites


def inventory(repo=None):
    repo = repo or V.REPO
    out = []
    for rel in FILES:
        path = os.path.join(repo, rel)
        txt = strip(open(path, encoding="latin-1").read())
        fname = os.path.basename(rel)
        counts = {}           # per file: overloads of one name share the numbering
        for fn, s, e in functions(txt):
            for callee, guards in sites_of_function(txt, s, e):
                counts[(fn, callee)] = counts.get((fn, callee), 0) + 1
                out.append(("%s:%s:%s#%d" % (fname, fn, callee, counts[(fn, callee)]), guards))
    return out


ATOMS = ("fLoadExternalDTD", "fValidate", "fLoadSchema", "ignoreLoadSchema", "fDoSchema", "isableDefaultEntityResolution",
         "fEntityHandler", "entityResolver", "srcToFill", "fLoadExternalDTD")


def relevant(guards):
    """the guards that mention a gate atom (used once to draft the committed table)"""
    return [g for g in guards if any(a in g for a in ATOMS)]


def coq_str(s):
    return '"' + s.replace('"', '""') + '"'


def generate(repo=None):
    inv = inventory(repo)
    if len(inv) < 30:
        raise RuntimeError("T-gate found only %d call sites: the source layout changed" % len(inv))
    lines = ["(** GENERATED by translator/c19_gates.py from %s -- do not edit. *)" % "/repo/src/xercesc",
             "From Coq Require Import String List.", "Import ListNotations.", "Local Open Scope string_scope.", "",
             "Definition gate_sites : list (string * list string) := ["]
    rows = []
    for key, guards in inv:
        rows.append("  (%s, [%s])" % (coq_str(key), "; ".join(coq_str(g) for g in guards)))
    lines.append(";\n".join(rows))
    lines.append("].")
    V.write_if_changed(os.path.join(V.COQ, "theories", "Gen", "GenGates.v"), "\n".join(lines) + "\n")
    return {"sites": len(inv), "files": len(FILES)}


if __name__ == "__main__":
    import sys
    for key, guards in inventory():
        if len(sys.argv) > 1 and sys.argv[1] == "table":
            print("  (%s, [%s]);" % (coq_str(key), "; ".join(coq_str(g) for g in relevant(guards))))
        else:
            print(key, "|", " ## ".join(guards))
