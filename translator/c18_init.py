"""C18 translator: reads from /repo's current source
  * the DOM heap constants of src/xercesc/dom/impl/DOMDocumentImpl.cpp         -> coq/theories/Gen/GenC18DomHeap.v
  * the initialiser / terminator call lists of util/XMLInitializer.cpp and the globals created in
    XMLPlatformUtils::Initialize / reset in Terminate (util/PlatformUtils.cpp)  -> coq/theories/Gen/GenC18Init.v
A construct that can no longer be read raises (the check reports a broken tie)."""
import os
import re
import sys

sys.path.insert(0, os.path.join(os.path.dirname(os.path.dirname(os.path.abspath(__file__))), "lib"))
import vcommon as V  # noqa


def strip_comments(txt):
    txt = re.sub(r"/\*.*?\*/", " ", txt, flags=re.S)
    return re.sub(r"//[^\n]*", " ", txt)


def body_of(txt, header_re):
    """text between the braces of the first function whose header matches"""
    m = re.search(header_re, txt)
    if not m:
        raise ValueError("function not found: %s" % header_re)
    i = txt.index("{", m.end())
    depth = 0
    for j in range(i, len(txt)):
        if txt[j] == "{":
            depth += 1
        elif txt[j] == "}":
            depth -= 1
            if depth == 0:
                return txt[i + 1:j]
    raise ValueError("unbalanced braces after %s" % header_re)


def read_dom_heap(repo):
    txt = strip_comments(open(os.path.join(repo, "src/xercesc/dom/impl/DOMDocumentImpl.cpp")).read())
    out = {}
    consts = {m.group(1): int(m.group(2), 0) for m in
              re.finditer(r"static\s+const\s+XMLSize_t\s+(\w+)\s*=\s*(0x[0-9A-Fa-f]+|\d+)\s*;", txt)}
    for name in ("kInitialHeapAllocSize", "kMaxHeapAllocSize", "kMaxSubAllocationSize"):
        m = re.search(r"static\s+XMLSize_t\s+%s\s*=\s*(0x[0-9A-Fa-f]+|\d+|\w+)\s*;" % name, txt)
        if not m:
            raise ValueError("constant %s not found" % name)
        v = m.group(1)
        if v in consts:                      # initialised from a named default (static const XMLSize_t kDefault... = literal)
            out[name] = consts[v]
        else:
            out[name] = int(v, 0)
    # the shape of allocate() the model follows: these fragments must still be there
    alloc = body_of(txt, r"void\s*\*\s*DOMDocumentImpl::allocate\s*\(\s*XMLSize_t\s+amount\s*\)")
    shape = {
        "aligns_amount": "amount = XMLPlatformUtils::alignPointerForNewBlockAllocation(amount)" in alloc,
        "big_goes_single": re.search(r"if\s*\(\s*amount\s*>\s*kMaxSubAllocationSize\s*\)", alloc) is not None,
        "single_request": "fMemoryManager->allocate(sizeOfHeader + amount)" in alloc,
        "new_block_when_short": re.search(r"if\s*\(\s*amount\s*>\s*fFreeBytesRemaining\s*\)", alloc) is not None,
        "doubles": re.search(r"if\s*\(\s*fHeapAllocSize\s*<\s*kMaxHeapAllocSize\s*\)\s*fHeapAllocSize\s*\*=\s*2", alloc) is not None,
    }
    # repaired form (fixes/C18-dom-arena-block-size.patch): the fresh block is made large enough for the request
    shape["block_fits_request"] = re.search(r"sizeOfHeader\s*\+\s*amount", alloc.split("fFreeBytesRemaining", 1)[1]) is not None \
        if "fFreeBytesRemaining" in alloc else False
    for k in ("aligns_amount", "big_goes_single", "single_request", "new_block_when_short", "doubles"):
        if not shape[k]:
            raise ValueError("DOMDocumentImpl::allocate no longer has the modelled shape: %s" % k)
    out["shape"] = shape
    return out


def read_init_lists(repo):
    txt = strip_comments(open(os.path.join(repo, "src/xercesc/util/XMLInitializer.cpp")).read())
    ini = body_of(txt, r"void\s+XMLInitializer::initializeStaticData\s*\(\s*\)")
    ter = body_of(txt, r"void\s+XMLInitializer::terminateStaticData\s*\(\s*\)")
    inits = re.findall(r"\binitialize(\w+)\s*\(\s*\)\s*;", ini)
    terms = re.findall(r"\bterminate(\w+)\s*\(\s*\)\s*;", ter)
    if len(inits) < 5 or len(terms) < 5:
        raise ValueError("initialiser lists not readable (%d/%d)" % (len(inits), len(terms)))
    pu = strip_comments(open(os.path.join(repo, "src/xercesc/util/PlatformUtils.cpp")).read())
    ib = body_of(pu, r"void\s+XMLPlatformUtils::Initialize\s*\(\s*const\s+char\s*\*\s*const\s+locale")
    tb = body_of(pu, r"void\s+XMLPlatformUtils::Terminate\s*\(\s*\)")
    created = []
    for m in re.finditer(r"\b(f?g[A-Z]\w*)\s*=\s*(new\b|make\w*\s*\()", ib):
        if m.group(1) not in created:
            created.append(m.group(1))
    zeroed = []
    for m in re.finditer(r"\b(f?g[A-Z]\w*)\s*=\s*0\s*;", tb):
        if m.group(1) not in zeroed:
            zeroed.append(m.group(1))
    deleted = re.findall(r"\bdelete\s+(f?g[A-Z]\w*)\s*;", tb)
    shape = {
        "count_guard": re.search(r"if\s*\(\s*gInitFlag\s*==\s*LONG_MAX\s*\)\s*return", ib) is not None,
        "count_inc": re.search(r"gInitFlag\+\+\s*;\s*if\s*\(\s*gInitFlag\s*>\s*1\s*\)\s*return", ib) is not None,
        "user_mgr": re.search(r"fgMemoryManager\s*=\s*memoryManager\s*;\s*fgMemMgrAdopted\s*=\s*false", ib) is not None,
        "term_zero_guard": re.search(r"if\s*\(\s*gInitFlag\s*==\s*0\s*\)\s*return", tb) is not None,
        "term_dec": re.search(r"gInitFlag--\s*;\s*if\s*\(\s*gInitFlag\s*>\s*0\s*\)\s*return", tb) is not None,
        "adopted_delete": re.search(r"if\s*\(\s*fgMemMgrAdopted\s*\)\s*delete\s+fgMemoryManager\s*;\s*else\s+fgMemMgrAdopted\s*=\s*true", tb) is not None,
    }
    for k, v in shape.items():
        if not v:
            raise ValueError("Initialize/Terminate no longer has the modelled shape: %s" % k)
    i2 = body_of(pu, r"void\s+XMLPlatformUtils::Initialize\s*\(\s*XMLSize_t\s+initialDOMHeapAllocSize")
    dom_first_only = re.search(r"if\s*\(\s*gInitFlag\s*==\s*1\s*\)\s*XMLInitializer::initializeDOMHeap", i2) is not None
    if not dom_first_only:
        raise ValueError("Initialize(initialDOMHeapAllocSize,...) no longer has the modelled shape")
    # does Terminate restore the DOM heap parameters?  (it does not at the pinned commit: finding C18-DOMHEAP-STICKY)
    dom_reset = "initializeDOMHeap" in tb or "terminateDOMHeap" in tb
    # strings the message loader keeps: every XMLMsgLoader::setX(<argument>) of Initialize needs XMLMsgLoader::setX(0) in Terminate
    msg_set = []
    for m in re.finditer(r"XMLMsgLoader::(set\w+)\s*\(\s*(\w+)\s*\)", ib):
        if m.group(2) != "0" and m.group(1) not in msg_set:
            msg_set.append(m.group(1))
    msg_reset = []
    for m in re.finditer(r"XMLMsgLoader::(set\w+)\s*\(\s*0\s*\)", tb):
        if m.group(1) not in msg_reset:
            msg_reset.append(m.group(1))
    if not msg_set:
        raise ValueError("Initialize no longer sets the message loader's locale / nlsHome the way the model assumes")
    # the setters themselves: release through the current global manager, replicate with it
    ml = strip_comments(open(os.path.join(repo, "src/xercesc/util/XMLMsgLoader.cpp")).read())
    for fn, field in (("setLocale", "fLocale"), ("setNLSHome", "fPath")):
        b = body_of(ml, r"void\s+XMLMsgLoader::%s\s*\(" % fn)
        if not (re.search(r"if\s*\(\s*%s\s*\)\s*\{\s*XMLPlatformUtils::fgMemoryManager->deallocate\(\s*%s\s*\)" % (field, field), b)
                and re.search(r"%s\s*=\s*XMLString::replicate\(\s*\w+\s*,\s*XMLPlatformUtils::fgMemoryManager\s*\)" % field, b)):
            raise ValueError("XMLMsgLoader::%s no longer has the modelled shape" % fn)
    # grammar ownership: shape of GrammarResolver::putGrammar / orphanGrammar / cacheGrammarFromParse the model follows, and which owner
    # orphanGrammar asks first (pool first = code as it was; bucket first = repaired order)
    gr = strip_comments(open(os.path.join(repo, "src/xercesc/validators/common/GrammarResolver.cpp")).read())
    putb = body_of(gr, r"void\s+GrammarResolver::putGrammar\s*\(")
    orb = body_of(gr, r"Grammar\s*\*\s*GrammarResolver::orphanGrammar\s*\(")
    cgb = body_of(gr, r"void\s+GrammarResolver::cacheGrammarFromParse\s*\(")
    if not re.search(r"if\s*\(\s*!fCacheGrammar\s*\|\|\s*!fGrammarPool->cacheGrammar\(\s*grammarToAdopt\s*\)\s*\)\s*\{\s*fGrammarBucket->put\(", putb):
        raise ValueError("GrammarResolver::putGrammar no longer has the modelled shape")
    if "reset()" not in cgb or "fCacheGrammar" not in cgb:
        raise ValueError("GrammarResolver::cacheGrammarFromParse no longer resets the bucket")
    ip = orb.find("fGrammarPool->orphanGrammar")
    ib2 = orb.find("fGrammarBucket->orphanKey")
    # both branches (caching / not caching) must take the grammar OUT of the bucket (orphanKey), not merely look it up
    # (not fatal for the run: the exploration is still carried out so that it can produce a failing input; the check reports the broken
    #  tie itself only when the exploration finds nothing)
    orphan_shape_ok = not (ip < 0 or orb.count("fGrammarBucket->orphanKey") < 2 or "fGrammarBucket->get" in orb)
    return dict(inits=inits, terms=terms, created=created, zeroed=zeroed, deleted=deleted, dom_reset=dom_reset,
                msg_set=msg_set, msg_reset=msg_reset, orphan_bucket_first=(0 <= ib2 < ip), orphan_shape_ok=orphan_shape_ok)


def coq_strlist(l):
    return "[" + "; ".join('"%s"' % x for x in l) + "]"


def generate(repo, gendir):
    heap = read_dom_heap(repo)
    il = read_init_lists(repo)
    v1 = ("(** GENERATED by translator/c18_init.py from src/xercesc/dom/impl/DOMDocumentImpl.cpp -- do not edit *)\n"
          "From Coq Require Import NArith.\nLocal Open Scope N_scope.\n"
          "Definition kInitialHeapAllocSize : N := %d.\nDefinition kMaxHeapAllocSize : N := %d.\n"
          "Definition kMaxSubAllocationSize : N := %d.\n"
          "(** true when allocate() sizes a fresh block to fit the request (repaired form) *)\n"
          "Definition arena_block_fits_request : bool := %s.\n"
          % (heap["kInitialHeapAllocSize"], heap["kMaxHeapAllocSize"], heap["kMaxSubAllocationSize"],
             "true" if heap["shape"]["block_fits_request"] else "false"))
    V.write_if_changed(os.path.join(gendir, "GenC18DomHeap.v"), v1)
    v2 = ("(** GENERATED by translator/c18_init.py from util/XMLInitializer.cpp and util/PlatformUtils.cpp -- do not edit *)\n"
          "From Coq Require Import String List.\nImport ListNotations.\nLocal Open Scope string_scope.\n"
          "(** X for every initializeX() called by XMLInitializer::initializeStaticData, in call order *)\n"
          "Definition static_inits : list string := %s.\n"
          "(** X for every terminateX() called by XMLInitializer::terminateStaticData, in call order *)\n"
          "Definition static_terms : list string := %s.\n"
          "(** globals assigned from new / makeXxx() in XMLPlatformUtils::Initialize *)\n"
          "Definition globals_created : list string := %s.\n"
          "(** globals deleted / set to 0 in XMLPlatformUtils::Terminate *)\n"
          "Definition globals_deleted : list string := %s.\n"
          "Definition globals_zeroed : list string := %s.\n"
          "(** does Terminate restore the DOM heap parameters set by Initialize(initial,max,maxSub,...) ? *)\n"
          "Definition terminate_resets_dom_heap : bool := %s.\n"
          "(** XMLMsgLoader::setX(argument) calls of Initialize (strings replicated with the global manager) *)\n"
          "Definition msgloader_set : list string := %s.\n"
          "(** XMLMsgLoader::setX(0) calls of Terminate (strings released) *)\n"
          "Definition msgloader_reset : list string := %s.\n"
          "(** does GrammarResolver::orphanGrammar look into the resolver's own bucket before it asks the pool ? *)\n"
          "Definition orphan_bucket_first : bool := %s.\n"
          % (coq_strlist(il["inits"]), coq_strlist(il["terms"]), coq_strlist(il["created"]), coq_strlist(il["deleted"]),
             coq_strlist(il["zeroed"]), "true" if il["dom_reset"] else "false", coq_strlist(il["msg_set"]), coq_strlist(il["msg_reset"]),
             "true" if il["orphan_bucket_first"] else "false"))
    V.write_if_changed(os.path.join(gendir, "GenC18Init.v"), v2)
    return dict(heap=heap, init=il)


if __name__ == "__main__":
    import json
    print(json.dumps(generate(V.REPO, os.path.join(V.COQ, "theories", "Gen")), indent=1))
