#!/usr/bin/env python3
"""Translator units T-globals, T-locks and T-init for property C17.

  T-globals : `nm -C --defined-only` on the freshly built libxerces-c .so; every symbol in a writable section
              (b B d D) -> coq/theories/Gen/GenGlobals.v (+ JSON sidecar .build/c17_inventory.json)
  T-locks   : for every such symbol (and for the hand-listed mutex-protected *member* facilities) every textual
              mention in /repo/src: enclosing function, access kind, the XMLMutexLock scopes lexically held at that
              point (brace matching), whether the function belongs to the Initialize/Terminate call tree
              -> coq/theories/Gen/GenLocks.v
  T-init    : ordered call lists of XMLInitializer::initializeStaticData / terminateStaticData and of
              XMLPlatformUtils::Initialize / Terminate -> coq/theories/Gen/GenInit.v

The classification of the symbols is NOT done here: it is the committed table coq/theories/C17/Classify17.v, and the
obligation T17_inventory (vm_compute) checks the generated data against it.
"""
import glob
import json
import os
import re
import subprocess
import sys

sys.path.insert(0, os.path.join(os.path.dirname(os.path.abspath(__file__)), "..", "lib"))
import vcommon as V

NS = "xercesc_4_0::"


class TranslateError(Exception):
    pass


# --------------------------------------------------------------------------------------------------------------
# C++ text helpers
# --------------------------------------------------------------------------------------------------------------
_TOK_RE = re.compile(r'//[^\n]*|/\*.*?\*/|"(?:\\.|[^"\\\n])*"|\'(?:\\.|[^\'\\\n])*\'', re.S)


def blank_comments_and_strings(s):
    """replace comments, string and char literals by spaces (newlines kept) so that offsets and lines survive"""
    def rep(m):
        t = m.group(0)
        if t[0] in "\"'":
            return t[0] + " " * (len(t) - 2) + t[0] if len(t) >= 2 else " "
        return "".join("\n" if ch == "\n" else " " for ch in t)
    return _TOK_RE.sub(rep, s)


def blank_preprocessor(s):
    """blank #-lines (with continuations); keeps #if/#else bodies (both branches are scanned)"""
    lines = s.split("\n")
    out = []
    cont = False
    for ln in lines:
        if cont or ln.lstrip().startswith("#"):
            cont = ln.rstrip().endswith("\\")
            out.append(" " * len(ln))
        else:
            out.append(ln)
    return "\n".join(out)


KEYWORDS = {"if", "for", "while", "switch", "catch", "return", "sizeof", "else", "do", "new", "delete", "throw",
            "defined", "operator", "static_cast", "const_cast", "reinterpret_cast", "dynamic_cast"}

LOCK_RE = re.compile(r"\bXMLMutexLock\s+\w+\s*\(\s*([^;]*?)\s*\)\s*;")


class Block:
    __slots__ = ("kind", "name", "start", "end", "parent", "locks")

    def __init__(self, kind, name, start, parent):
        self.kind, self.name, self.start, self.parent = kind, name, start, parent
        self.end = None
        self.locks = []          # (offset, mutex expression)


def header_of(txt, pos):
    """text between the previous ';' '{' '}' (at any depth) and the '{' at pos"""
    j = pos - 1
    depth = 0
    while j >= 0:
        c = txt[j]
        if c == ")":
            depth += 1
        elif c == "(":
            depth -= 1
        elif depth <= 0 and c in ";{}":
            break
        j -= 1
    return txt[j + 1:pos]


def classify_block(hdr, parent):
    h = " ".join(hdr.split())
    if parent is not None and parent.kind in ("func", "block"):
        return "block", None
    m = re.match(r"^(?:inline\s+)?namespace\b\s*(\w*)", h)
    if m:
        return "ns", m.group(1)
    if re.match(r'^extern\s*"', h) or h.startswith("extern"):
        if "(" not in h:
            return "ns", ""
    m = re.match(r"^(?:template\s*<[^{]*>\s*)?(?:typedef\s+)?(?:class|struct|union)\b(?:\s+\w+\s*\([^)]*\))?\s+(?:[A-Z_]+\s+)*(\w+)[^()]*$", h)
    if m and "(" not in h:
        return "class", m.group(1)
    if re.match(r"^(?:typedef\s+)?enum\b", h):
        return "block", None
    if "(" in h:
        # function definition: first qualified identifier followed by '(' that is not a keyword / macro-ish cast
        h2 = re.sub(r"^template\s*<[^>]*>\s*", "", h)
        for m in re.finditer(r"((?:[A-Za-z_]\w*\s*(?:<[^<>()]*>)?\s*::\s*)*~?\s*[A-Za-z_]\w*|operator\s*[^\s(]+)\s*\(", h2):
            name = re.sub(r"\s+", "", m.group(1))
            if name.split("::")[-1] in KEYWORDS or name.isupper():
                continue
            return "func", re.sub(r"<[^<>]*>", "", name)
        return "block", None
    if "=" in h:
        return "init", None          # brace initialiser of a variable
    return "block", None


def scan_file(path):
    """returns (clean text, list of blocks, line start offsets)"""
    raw = open(path, encoding="utf-8", errors="replace").read()
    txt = blank_preprocessor(blank_comments_and_strings(raw))
    blocks = BlockList()
    cur = None
    for m in re.finditer(r"[{}]", txt):
        p = m.start()
        if txt[p] == "{":
            kind, name = classify_block(header_of(txt, p), cur)
            if kind == "func" and cur is not None and cur.kind == "class" and "::" not in name:
                name = cur.name + "::" + name
            b = Block(kind, name, p, cur)
            blocks.append(b)
            cur = b
        else:
            if cur is not None:
                cur.end = p
                cur = cur.parent
    for b in blocks:
        if b.end is None:
            b.end = len(txt)
    for m in LOCK_RE.finditer(txt):
        b = innermost(blocks, m.start())
        if b is not None:
            b.locks.append((m.start(), norm_mutex(m.group(1))))
    starts = [0]
    for m in re.finditer(r"\n", txt):
        starts.append(m.end())
    return txt, blocks, starts


def norm_mutex(e):
    e = re.sub(r"\s+", "", e)
    e = e.lstrip("&")
    e = re.sub(r"const_cast<[^>]*>\(this\)->", "", e)
    e = re.sub(r"^\(?XMLMutex\*\)?", "", e)
    e = e.replace("XMLPlatformUtils::", "")
    return e


def innermost(blocks, pos):
    """blocks are in order of their opening brace"""
    import bisect
    key = getattr(blocks, "_starts", None)
    if key is None:
        key = [b.start for b in blocks]
        try:
            blocks._starts = key
        except AttributeError:
            pass
    i = bisect.bisect_left(key, pos) - 1
    b = blocks[i] if i >= 0 else None
    while b is not None and not (b.start < pos < b.end):
        b = b.parent
    return b


class BlockList(list):
    pass


def enclosing(b):
    """(function name or None, class name or None) of block b"""
    fn = cl = None
    x = b
    while x is not None:
        if x.kind == "func" and fn is None:
            fn = x.name
        if x.kind == "class" and cl is None:
            cl = x.name
        x = x.parent
    return fn, cl


def held_at(b, pos):
    held = []
    x = b
    while x is not None and x.kind in ("block", "func"):
        for off, mx in x.locks:
            if off < pos and mx not in held:
                held.append(mx)
        if x.kind == "func":
            break
        x = x.parent
    return held


def line_of(starts, pos):
    import bisect
    return bisect.bisect_right(starts, pos)


def access_kind(txt, a, b):
    """classify the mention txt[a:b]"""
    before = txt[max(0, a - 24):a]
    after = txt[b:b + 48]
    bs = before.rstrip()
    if re.search(r"\bdelete\s*(\[\s*\])?\s*$", before):
        return "dwrite"
    if bs.endswith("++") or bs.endswith("--"):
        return "write"
    m = re.match(r"\s*(\[[^\]]*\])?\s*(=(?!=)|\+\+|--|\+=|-=|\*=|/=|\|=|&=|\^=|<<=|>>=)", after)
    if m:
        return "dwrite" if m.group(1) else "write"
    if re.match(r"\s*(->|\[)", after) or re.search(r"(\(\s*\*|[^\w)\]]\*)\s*$", before):
        return "deref"
    if bs.endswith("&") and not bs.endswith("&&"):
        return "addr"
    return "read"


def split_top(cond, op):
    """split a condition at the top-level occurrences of && or ||"""
    parts, depth, cur, i = [], 0, "", 0
    while i < len(cond):
        c = cond[i]
        if c in "([":
            depth += 1
        elif c in ")]":
            depth -= 1
        if depth == 0 and cond.startswith(op, i):
            parts.append(cur)
            cur = ""
            i += len(op)
            continue
        cur += c
        i += 1
    parts.append(cur)
    return [re.sub(r"\s+", "", p) for p in parts]


def if_statements(txt, lo, hi):
    """(position of `if`, condition text, position after the condition) of the if statements in txt[lo:hi]"""
    out = []
    for m in re.finditer(r"\bif\s*\(", txt[lo:hi]):
        i = lo + m.end()
        depth = 1
        while i < hi and depth:
            depth += {"(": 1, ")": -1}.get(txt[i], 0)
            i += 1
        out.append((lo + m.start(), txt[lo + m.end():i - 1], i))
    return out


def dominated_by_flag(txt, blocks, pos, flag):
    """is every path to txt[pos] dominated by a test of `flag` that leaves when it is set?  Accepted shapes only:
       (a) an enclosing block that is the body of `if (... && !flag && ...)` (top-level conjunct, not an else branch);
       (b) a statement `if (... || flag || ...) return/throw ...;` (top-level disjunct, no preceding else) that sits
           directly in one of the enclosing blocks, before pos.
       A test nested inside another conditional (e.g. only on the schema branch) does not dominate."""
    neg = ("!" + flag, "!this->" + flag)
    posf = (flag, "this->" + flag)
    x = innermost(blocks, pos)
    while x is not None and x.kind in ("block", "func"):
        # (a)
        hdr = header_of(txt, x.start)
        mm = re.search(r"(?<!\w)if\s*\((.*)\)\s*$", hdr, re.S)
        if mm and not re.search(r"\belse\s*$", hdr[:mm.start()]):
            if any(p in neg for p in split_top(mm.group(1), "&&")):
                return True
        # (b)
        for ifpos, cond, after in if_statements(txt, x.start + 1, pos):
            if innermost(blocks, ifpos) is not x:
                continue
            if re.search(r"\belse\s*$", txt[max(x.start, ifpos - 12):ifpos]):
                continue
            if not any(p in posf for p in split_top(cond, "||")):
                continue
            rest = txt[after:after + 200].lstrip()
            if rest.startswith("{"):
                rest = rest[1:].lstrip()
            if re.match(r"(return\b|throw\b|ThrowXML)", rest):
                return True
        if x.kind == "func":
            break
        x = x.parent
    return False


# --------------------------------------------------------------------------------------------------------------
# T-globals
# --------------------------------------------------------------------------------------------------------------
def nm_symbols(so):
    rc, out = V.sh(["nm", "-C", "--defined-only", so])
    if rc != 0:
        raise TranslateError("nm failed: " + out[-400:])
    syms = []
    for ln in out.splitlines():
        m = re.match(r"^[0-9a-f]+\s+([A-Za-z])\s+(.*)$", ln)
        if not m or m.group(1) not in "bBdD":
            continue
        name = m.group(2)
        if re.match(r"^(vtable|typeinfo|typeinfo name|VTT|construction vtable) for ", name):
            continue                      # compiler generated, read-only after relocation
        syms.append((m.group(1), name))
    return sorted(syms, key=lambda x: (x[1], x[0]))


def split_name(name):
    """-> (kind, owner, base).  kind: toolchain | guard | fnstatic | classstatic | nsstatic"""
    if name.startswith("guard variable for "):
        k, o, b = split_name(name[len("guard variable for "):])
        return "guard", o, b
    if not name.startswith(NS):
        return "toolchain", "", name
    rest = name[len(NS):]
    if ")" in rest:
        i = rest.rindex(")")
        m = re.match(r"^(?:\s*const)?::(\w+)$", rest[i + 1:])
        if not m:
            raise TranslateError("cannot split function-static symbol " + name)
        fn = rest[:rest.index("(")]
        return "fnstatic", fn, m.group(1)
    parts = rest.split("::")
    if len(parts) == 1:
        return "nsstatic", "", parts[0]
    return "classstatic", "::".join(parts[:-1]), parts[-1]


# hand-listed mutex-protected facilities that are *members* of heap objects reachable from process-wide state
# (class, fields, mutex field, files).  The translator measures the lock coverage of every mention.
FACILITIES = [
    ("RangeTokenMap", ["fTokenRegistry", "fRangeMap", "fCategories", "fTokenFactory"], "fMutex",
     ["util/regx/RangeTokenMap.cpp", "util/regx/RangeTokenMap.hpp"]),
    ("ICULCPTranscoder", ["fConverter"], "fMutex", ["util/Transcoders/ICU/ICUTransService.cpp"]),
    # the synchronised URI pool protects the state it inherits from XMLStringPool: tracked are the calls into the
    # base class ("XMLStringPool::" = any `XMLStringPool::f(...)`) and the inherited counter fCurId
    ("XMLSynchronizedStringPool", ["XMLStringPool::", "fCurId"], "fMutex", ["util/SynchronizedStringPool.cpp"]),
    ("XMLGrammarPoolImpl", ["fLocked", "fSynchronizedStringPool", "fGrammarRegistry"], "",
     ["framework/XMLGrammarPoolImpl.cpp"]),
]


def src_files(repo):
    root = os.path.join(repo, "src", "xercesc")
    fs = []
    for ext in ("*.cpp", "*.hpp", "*.c", "*.h"):
        fs += glob.glob(os.path.join(root, "**", ext), recursive=True)
    return sorted(fs), root


def generate(so=None, repo=None, range_audit=None):
    so = so or V.lib_so("lib")
    repo = repo or V.REPO
    syms = nm_symbols(so)
    if len(syms) < 50:
        raise TranslateError("implausibly few writable symbols (%d) in %s" % (len(syms), so))
    files, root = src_files(repo)
    scans = {}
    rawtxt = {}

    def scan(f):
        if f not in scans:
            scans[f] = scan_file(f)
        return scans[f]

    # cheap pre-filter: which files mention which identifier
    idents = {}
    for f in files:
        rawtxt[f] = open(f, encoding="utf-8", errors="replace").read()
        idents[f] = set(re.findall(r"[A-Za-z_]\w*", rawtxt[f]))

    # ---- T-init --------------------------------------------------------------------------------------------
    init_info = t_init(root, scan)
    init_fns = set(init_info["init_functions"])

    # ---- symbols -------------------------------------------------------------------------------------------
    entries = []       # dict(id, sect, kind, owner, base, file)
    sites = []         # dict(sym, file, line, func, kind, init, held)

    def is_init_fn(fn):
        return fn is not None and (fn in init_fns or fn.startswith("XMLInitializer::"))

    def add_sites(sid, base, f, accept):
        txt, blocks, starts = scan(f)
        rx = r"\b" + re.escape(base) + r"\b"
        if base.endswith("::"):                               # any call qualified with this class
            rx = r"\b" + re.escape(base[:-2]) + r"\s*::\s*\w+(?=\s*\()"
        for m in re.finditer(rx, txt):
            a, b = m.start(), m.end()
            blk = innermost(blocks, a)
            fn, cl = enclosing(blk) if blk is not None else (None, None)
            pre = txt[max(0, a - 80):a]
            q = re.search(r"((?:\w+\s*::\s*)+)$", pre)
            qual = re.sub(r"\s+", "", q.group(1))[:-2] if q else None
            if re.search(r"(\.|->)\s*$", pre):
                continue                                     # member of some other object (obj.base / p->base)
            if not accept(fn, cl, qual, blk):
                continue
            if fn is None:
                kind = "decl"
            elif base.endswith("::"):
                kind = "deref"
            else:
                kind = access_kind(txt, a, b)
                # a local declaration `static T base = ...` inside the function is the definition, not a store
                if re.search(r"\bstatic\b[^;{}]*$", txt[max(0, a - 120):a]) and kind in ("write", "dwrite"):
                    kind = "decl"
            held = held_at(blk, a) if blk is not None else []
            sites.append({"sym": sid, "file": os.path.relpath(f, root), "line": line_of(starts, a), "func": fn or "",
                          "kind": kind, "init": is_init_fn(fn), "held": held})

    seen_ns_files = {}
    for sect, name in syms:
        kind, owner, base = split_name(name)
        sid = len(entries)
        ent = {"id": sid, "sect": sect, "kind": kind, "owner": owner, "base": base, "file": "", "name": name}
        entries.append(ent)
        if kind in ("toolchain", "guard"):
            continue
        cand = [f for f in files if base in idents[f]]
        if kind == "nsstatic":
            # namespace-scope variable: defining files = those declaring it outside any function/class
            defs = []
            for f in cand:
                txt, blocks, starts = scan(f)
                for m in re.finditer(r"\b" + re.escape(base) + r"\b", txt):
                    blk = innermost(blocks, m.start())
                    fn, cl = enclosing(blk) if blk is not None else (None, None)
                    if fn is None and cl is None and (blk is None or blk.kind in ("ns", "init")) and f.endswith((".cpp", ".c")):
                        if not re.search(r"\bextern\b[^;]*$", txt[max(0, m.start() - 100):m.start()]):
                            defs.append(f)
                            break
            k = seen_ns_files.setdefault(name, [])
            rest = [f for f in defs if f not in k]
            if sect in "bd" and rest:                        # internal linkage: one symbol per defining file
                f0 = rest[0]
                k.append(f0)
                ent["file"] = os.path.relpath(f0, root)
                add_sites(sid, base, f0, lambda fn, cl, qual, blk: qual is None)
            else:                                            # external linkage (or definition not located)
                if defs:
                    ent["file"] = os.path.relpath(defs[0], root)
                for f in cand:
                    add_sites(sid, base, f, lambda fn, cl, qual, blk: qual is None)
        elif kind == "classstatic":
            cls = owner.split("::")[-1]

            def acc(fn, cl, qual, blk, cls=cls):
                if qual is not None:
                    return qual.split("::")[-1] == cls
                if cl == cls:
                    return True
                return fn is not None and (fn.startswith(cls + "::") or ("::" + cls + "::") in fn)
            for f in cand:
                add_sites(sid, base, f, acc)
            d = [s for s in sites if s["sym"] == sid and s["kind"] == "decl" and s["file"].endswith(".cpp")]
            if d:
                ent["file"] = d[0]["file"]
        elif kind == "fnstatic":
            fnq = owner

            def accf(fn, cl, qual, blk, fnq=fnq):
                return fn is not None and (fn == fnq or fn.endswith("::" + fnq) or fnq.endswith("::" + fn)) and qual is None
            for f in cand:
                add_sites(sid, base, f, accf)
            d = [s for s in sites if s["sym"] == sid]
            if d:
                ent["file"] = d[0]["file"]

    # ---- member-level facilities -----------------------------------------------------------------------------
    for cls, fields, mutex, fl in FACILITIES:
        for fld in fields:
            sid = len(entries)
            entries.append({"id": sid, "sect": "h", "kind": "member", "owner": cls, "base": fld, "file": fl[0],
                            "name": cls + "::" + fld, "mutex": mutex})

            def accm(fn, cl, qual, blk, cls=cls):
                return fn is not None and (fn.startswith(cls + "::") or cl == cls)
            for rel in fl:
                f = os.path.join(root, rel)
                if not os.path.exists(f):
                    raise TranslateError("facility file missing: " + rel)
                add_sites(sid, fld, f, accm)
            if not [s for s in sites if s["sym"] == sid]:
                raise TranslateError("facility %s::%s has no access site any more" % (cls, fld))

    # ctor/dtor flag: accesses while the object is not shared yet
    for s in sites:
        fn = s["func"]
        parts = fn.split("::")
        s["ctor"] = len(parts) >= 2 and (parts[-1] == parts[-2] or parts[-1] == "~" + parts[-2])

    # ---- call-graph fragment: who calls the functions that write outside the Initialize/Terminate tree ---------
    def class_of(fn):
        parts = fn.split("::")
        return parts[-2] if len(parts) >= 2 else ""

    def definers(base):
        """classes that define a member function called `base`"""
        out = set()
        for f in files:
            if base in idents[f]:
                txt, blocks, _ = scan(f)
                for b in blocks:
                    if b.kind == "func" and b.name.split("::")[-1] == base:
                        out.add(class_of(b.name))
        return out

    def callers_of(F):
        cls, base = class_of(F), F.split("::")[-1]
        res = set()
        if base.startswith("~"):
            return ["?destructor"]
        ctor = base == cls
        uniq = None
        for f in files:
            if base not in idents[f]:
                continue
            txt, blocks, _ = scan(f)
            for m in re.finditer(r"\b" + re.escape(base) + r"\s*\(", txt):
                blk = innermost(blocks, m.start())
                fn, cl = enclosing(blk) if blk is not None else (None, None)
                if fn is None:
                    continue                                   # declaration / definition header
                pre = txt[max(0, m.start() - 80):m.start()]
                if ctor:
                    if re.search(r"\bnew\s*(\([^()]*\)\s*)?$", pre) or re.search(r"[;{}]\s*$", pre):
                        res.add(fn)
                    continue
                q = re.search(r"(\w+)\s*::\s*$", pre)
                if q:
                    if q.group(1) == cls:
                        res.add(fn)
                    continue
                if re.search(r"(\.|->)\s*$", pre):
                    if uniq is None:
                        uniq = definers(base)
                    if uniq == {cls}:
                        res.add(fn)
                    elif cls in uniq:
                        res.add("?ambiguous:" + fn)
                    continue
                if class_of(fn) == cls:
                    res.add(fn)
        res.discard(F)
        return sorted(res)

    callers = {}
    work = sorted({s["func"] for s in sites if s["kind"] in ("write", "dwrite") and not s["init"] and s["func"]})
    depth = 0
    while work and depth < 4:
        nxt = []
        for F in work:
            if F in callers or is_init_fn(F):
                continue
            cs = callers_of(F)
            wide = len(cs) > 4 or any(g.startswith("?ambiguous") for g in cs)
            if wide:                                           # called from all over the library: a run-time function
                cs = [g for g in cs if not g.startswith("?")][:4] + ["?many"]
            callers[F] = cs
            for g in cs:
                if not wide and not g.startswith("?") and g not in callers and not is_init_fn(g):
                    nxt.append(g)
        work = sorted(set(nxt))
        depth += 1

    # ---- locked grammar pool: EVERY write of a pool field is dominated by the fLocked test or on the lock/unlock path ----
    pool_guards = []
    fpool = os.path.join(root, "framework", "XMLGrammarPoolImpl.cpp")
    txt, blocks, starts = scan(fpool)
    LOCK_PATH = ("XMLGrammarPoolImpl::XMLGrammarPoolImpl", "XMLGrammarPoolImpl::~XMLGrammarPoolImpl", "XMLGrammarPoolImpl::lockPool",
                 "XMLGrammarPoolImpl::unlockPool", "XMLGrammarPoolImpl::cleanUp", "XMLGrammarPoolImpl::deserializeGrammars")
    FIELDS = ("fXSModel", "fXSModelIsValid", "fGrammarRegistry", "fStringPool", "fSynchronizedStringPool")
    MUTATORS = "put|orphanKey|removeAll|removeKey|removeNextElement|cleanup|flushAll|addOrFind|addNewEntry"
    found = []
    for fld in FIELDS:
        for m in re.finditer(r"\b" + fld + r"\b", txt):
            blk = innermost(blocks, m.start())
            fn, _ = enclosing(blk) if blk is not None else (None, None)
            if fn is None:
                continue
            if re.search(r"(\.|->)\s*$", txt[max(0, m.start() - 4):m.start()]):
                continue
            kind = access_kind(txt, m.start(), m.end())
            mm = re.match(r"\s*->\s*(" + MUTATORS + r")\s*\(", txt[m.end():m.end() + 60])
            if kind in ("write", "dwrite"):
                found.append((fn, fld + ":" + ("delete" if kind == "dwrite" else "store"), m.start()))
            elif mm:
                found.append((fn, fld + "->" + mm.group(1), m.start()))
    # private helpers that write pool fields: every call of them is a write site of the caller
    for m in re.finditer(r"\bcreateXSModel\s*\(", txt):
        blk = innermost(blocks, m.start())
        fn, _ = enclosing(blk) if blk is not None else (None, None)
        if fn is not None and fn != "XMLGrammarPoolImpl::createXSModel":
            found.append((fn, "createXSModel()", m.start()))
    for fn, op, pos in found:
        if fn == "XMLGrammarPoolImpl::createXSModel":
            continue                                     # covered through its call sites
        ok = fn in LOCK_PATH or dominated_by_flag(txt, blocks, pos, "fLocked")
        pool_guards.append({"func": fn, "op": op, "line": line_of(starts, pos), "guarded": ok, "lockpath": fn in LOCK_PATH})
    if not [g for g in pool_guards if not g["lockpath"]]:
        raise TranslateError("no guarded write found in XMLGrammarPoolImpl.cpp")

    # ---- RangeTokenMap::getRange: which slot does the lazily built complement go to? -------------------------------------
    fmap = os.path.join(root, "util", "regx", "RangeTokenMap.cpp")
    gr = body_of(scan, fmap, "RangeTokenMap::getRange")
    getrange_publish = []
    for m in re.finditer(r"\bsetRangeToken\s*\(([^;]*?)\)\s*;", gr):
        args = [a.strip() for a in split_top(m.group(1), ",")]
        getrange_publish.append({"args": m.group(1).strip(), "ok": len(args) == 2 and args[1] in ("complement", "true")})

    inv = {"so": so, "symbols": entries, "sites": sites, "init": init_info, "callers": callers,
           "pool_guards": pool_guards, "range_audit": range_audit or [], "getrange_publish": getrange_publish}
    write_coq(inv)
    side = os.path.join(V.BUILD, "c17_inventory.json")
    os.makedirs(V.BUILD, exist_ok=True)
    with open(side, "w") as f:
        json.dump(inv, f, indent=1)
    return inv


# --------------------------------------------------------------------------------------------------------------
# T-init
# --------------------------------------------------------------------------------------------------------------
def body_of(scan, f, fname):
    txt, blocks, starts = scan(f)
    for b in blocks:
        if b.kind == "func" and b.name == fname:
            return txt[b.start:b.end]
    raise TranslateError("function %s not found in %s" % (fname, f))


def calls_in(body):
    out = []
    for m in re.finditer(r"\b((?:[A-Za-z_]\w*::)*[A-Za-z_]\w*)\s*\(", body):
        n = m.group(1)
        if n.split("::")[-1] in KEYWORDS or n in ("defined",):
            continue
        out.append(n)
    return out


def t_init(root, scan):
    fi = os.path.join(root, "util", "XMLInitializer.cpp")
    fp = os.path.join(root, "util", "PlatformUtils.cpp")
    init_order = [c for c in calls_in(body_of(scan, fi, "XMLInitializer::initializeStaticData")) if c.startswith("initialize")]
    term_order = [c for c in calls_in(body_of(scan, fi, "XMLInitializer::terminateStaticData")) if c.startswith("terminate")]
    if len(init_order) < 10 or len(term_order) < 10:
        raise TranslateError("cannot read the initializeStaticData/terminateStaticData call lists")
    txt, blocks, _ = scan(fp)
    pinit = []
    for b in blocks:
        if b.kind == "func" and b.name == "XMLPlatformUtils::Initialize":
            pinit.append(calls_in(txt[b.start:b.end]))
    if not pinit:
        raise TranslateError("XMLPlatformUtils::Initialize not found")
    pinit_calls = max(pinit, key=len)
    pterm_calls = calls_in(body_of(scan, fp, "XMLPlatformUtils::Terminate"))
    fns = {"XMLPlatformUtils::Initialize", "XMLPlatformUtils::Terminate"}
    for c in init_order + term_order:
        fns.add("XMLInitializer::" + c)
    # direct callees of Initialize/Terminate that are library functions run only at start-up / shut-down
    for c in pinit_calls + pterm_calls:
        if c.startswith("XMLInitializer::") or c in ("XMLString::initString", "XMLString::termString",
                                                     "XMLMsgLoader::setLocale", "XMLMsgLoader::setNLSHome"):
            fns.add(c)
        if c in ("makeMutexMgr", "makeFileMgr", "makeTransService", "makeNetAccessor"):
            fns.add("XMLPlatformUtils::" + c)
    return {"init_order": init_order, "term_order": term_order, "platform_init_calls": pinit_calls,
            "platform_term_calls": pterm_calls, "init_functions": sorted(fns)}


# --------------------------------------------------------------------------------------------------------------
# Coq output
# --------------------------------------------------------------------------------------------------------------
def cstr(s):
    return '"' + s.replace('"', '""') + '"'


def write_coq(inv):
    """strings are interned: Gen/GenGlobals.v carries the name table, everything else refers to it by index
    (Coq strings are expensive to type-check; 1600 sites with spelled-out names took 20 s)"""
    gen = os.path.join(V.COQ, "theories", "Gen")
    hdr = "(* GENERATED by translator/c17_globals.py from %s -- do not edit; regenerated on every check *)\n" \
          "From Coq Require Import String List.\nImport ListNotations.\nLocal Open Scope string_scope.\n\n"
    names = []
    idx = {}

    def nid(x):
        if x not in idx:
            idx[x] = len(names)
            names.append(x)
        return idx[x]
    for k in KINDS:
        nid(k)
    rows = []
    for e in inv["symbols"]:
        cm = (e["name"] + " @ " + e["file"]).replace("*)", "* )").replace("(*", "( *")
        rows.append("  (* %s *)\n  (%d, (%d, (%d, (%d, %d))))" % (cm, e["id"], nid(e["sect"]), nid(e["kind"]), nid(e["owner"]), nid(e["base"])))
    srows = []
    for s in inv["sites"]:
        srows.append("  (%d, (%d, (%d, (%s, (%s, (%s, [%s]))))))" % (
            s["sym"], nid(s["func"]), nid(s["kind"]), cstr(str(s["line"])), "true" if s["init"] else "false",
            "true" if s["ctor"] else "false", "; ".join(str(nid(h)) for h in s["held"])))
    i = inv["init"]
    t = hdr % "util/XMLInitializer.cpp, util/PlatformUtils.cpp, framework/XMLGrammarPoolImpl.cpp"
    for k in ("init_order", "term_order", "platform_init_calls", "platform_term_calls", "init_functions"):
        t += "Definition gen_%s : list string := [%s].\n" % (k, "; ".join(cstr(x) for x in i[k]))
    t += "Definition gen_callers : list (string * list string) := [\n%s\n].\n" % ";\n".join(
        "  (%s, [%s])" % (cstr(k), "; ".join(cstr(x) for x in v)) for k, v in sorted(inv["callers"].items()))
    t += "Definition gen_pool_guards : list (string * (string * bool)) := [%s].\n" % "; ".join(
        "(%s, (%s, %s))" % (cstr(g["func"]), cstr(g["op"]), "true" if g["guarded"] else "false") for g in inv["pool_guards"])
    t += "(* setRangeToken calls inside RangeTokenMap::getRange (lazy publication): (argument text, passes the complement flag) *)\n"
    t += "Definition gen_getrange_publish : list (string * bool) := [%s].\n" % "; ".join(
        "(%s, %s)" % (cstr(g["args"]), "true" if g["ok"] else "false") for g in inv["getrange_publish"])
    t += "(* state of every RangeToken reachable from RangeTokenMap right after Initialize, asked from the built library:\n" \
         "   (keyword, (complement, (present, map built))) *)\n"
    t += "Definition gen_range_tokens : list (string * (bool * (bool * bool))) := [\n%s\n].\n" % ";\n".join(
        "  (%s, (%s, (%s, %s)))" % (cstr(a["key"]), "true" if a["compl"] else "false", "true" if a["present"] else "false",
                                     "true" if a["map"] else "false") for a in inv["range_audit"])
    V.write_if_changed(os.path.join(gen, "GenInit17.v"), t)
    g = hdr % "nm -C --defined-only libxerces-c (sections b B d D) + FACILITIES"
    g += "(* interned strings; index = position *)\nDefinition gen_names : list string := [\n  %s\n].\n\n" % ";\n  ".join(cstr(x) for x in names)
    g += "(* (id, (section, (kind, (owner, base)))) -- the last four are indices into gen_names *)\n"
    g += "Definition gen_globals : list (nat * (nat * (nat * (nat * nat)))) := [\n" + ";\n".join(rows) + "\n].\n"
    V.write_if_changed(os.path.join(gen, "GenGlobals.v"), g)
    l = hdr % "src/xercesc (brace matching, XMLMutexLock scopes)"
    l += "(* (symbol id, (function, (kind, (line, (in Initialize/Terminate tree, (ctor/dtor, held mutexes)))))) *)\n"
    l += "Definition gen_sites : list (nat * (nat * (nat * (string * (bool * (bool * list nat)))))) := [\n" + \
         ";\n".join(srows) + "\n].\n"
    V.write_if_changed(os.path.join(gen, "GenLocks.v"), l)


KINDS = ["decl", "read", "write", "dwrite", "deref", "addr"]


def parse_audit(text):
    out = []
    for ln in text.splitlines():
        m = re.match(r"^TOKEN (\S+) ([01]) present=([01]) map=([01]) compacted=([01]) sorted=([01]) casei=([01])$", ln)
        if m:
            out.append({"key": m.group(1), "compl": m.group(2) == "1", "present": m.group(3) == "1", "map": m.group(4) == "1",
                        "compacted": m.group(5) == "1", "casei": m.group(7) == "1"})
    return out


if __name__ == "__main__":
    aud = None
    xh = os.path.join(V.BIN, "xh_C17-tsan")
    if os.path.exists(xh):
        aud = parse_audit(V.sh([xh, "audit"], timeout=120)[1])
    inv = generate(range_audit=aud)
    print("%d symbols, %d sites" % (len(inv["symbols"]), len(inv["sites"])))
    for k, v in sorted(inv["callers"].items()):
        print("callers", k, "<-", v)
    if len(sys.argv) > 1:
        for e in inv["symbols"]:
            ss = [s for s in inv["sites"] if s["sym"] == e["id"]]
            print(e["id"], e["sect"], e["kind"], e["owner"], e["base"], e["file"], len(ss))
            if sys.argv[1] == "-v":
                for s in ss:
                    print("     %-9s %s:%d %s init=%s held=%s" % (s["kind"], s["file"], s["line"], s["func"], s["init"], s["held"]))
