#!/usr/bin/env python3
"""Translator unit T-esc (property C12): reads, from /repo's *current* working tree,
  * src/xercesc/framework/XMLFormatter.cpp : gEscapeChars (one row per EscapeFlags mode), the five entity
    reference strings gAmpRef/gAposRef/gGTRef/gLTRef/gQuoteRef, and the `switch (*srcPtr)` of formatBuf that maps
    an escaped character to its reference string;
  * src/xercesc/framework/XMLFormatter.hpp : the order of enum EscapeFlags / UnRepFlags and kTmpBufSize;
  * src/xercesc/dom/impl/DOMLSSerializerImpl.cpp : the literal markup strings (gStartCDATA, gEndCDATA, ...);
  * src/xercesc/util/XMLUniDefs.hpp : the values of the ch* constants used by those initialisers
and regenerates coq/theories/Gen/GenEsc.v.  Run on every check (checks/C12.py)."""
import os
import re
import sys

sys.path.insert(0, os.path.join(os.path.dirname(os.path.abspath(__file__)), "..", "lib"))
import vcommon as V


class TranslateError(Exception):
    pass


def strip_comments(s):
    s = re.sub(r"/\*.*?\*/", "", s, flags=re.S)
    s = re.sub(r"//[^\n]*", "", s)
    return s


def read(rel):
    return strip_comments(open(os.path.join(V.REPO, "src", "xercesc", rel)).read())


def ch_constants():
    src = read("util/XMLUniDefs.hpp")
    d = {}
    for m in re.finditer(r"const\s+XMLCh\s+(ch\w+)\s*=\s*(0[xX][0-9a-fA-F]+|\d+)\s*;", src):
        d[m.group(1)] = int(m.group(2), 0)
    if len(d) < 100:
        raise TranslateError("XMLUniDefs.hpp: only %d ch* constants found" % len(d))
    return d


def body_of(src, name):
    """text between the braces of `name[...]...[...] = { ... };` (outermost braces)"""
    m = re.search(r"\b" + re.escape(name) + r"\s*(\[[^\]]*\]\s*)+=\s*\{", src)
    if not m:
        raise TranslateError("array %s not found" % name)
    i = m.end()
    depth, j = 1, i
    while depth:
        if src[j] == "{":
            depth += 1
        elif src[j] == "}":
            depth -= 1
        j += 1
    return src[i:j - 1]


def units(txt, ch):
    out = []
    for tok in re.findall(r"[A-Za-z_]\w*|0[xX][0-9a-fA-F]+|\d+", txt):
        if tok in ch:
            out.append(ch[tok])
        elif re.match(r"^(0[xX][0-9a-fA-F]+|\d+)$", tok):
            out.append(int(tok, 0))
        else:
            raise TranslateError("unknown token %s in initialiser" % tok)
    return out


def zstring(src, name, ch):
    """a null-terminated XMLCh string constant -> units without the terminator"""
    u = units(body_of(src, name), ch)
    if not u or u[-1] != 0 or 0 in u[:-1]:
        raise TranslateError("%s is not a null-terminated string: %s" % (name, u))
    return u[:-1]


def enum_names(src, name):
    m = re.search(r"enum\s+" + name + r"\s*\{([^}]*)\}", src)
    if not m:
        raise TranslateError("enum %s not found" % name)
    names = []
    for item in m.group(1).split(","):
        item = item.strip()
        if not item:
            continue
        if "=" in item:
            break
        names.append(item)
    return names


def clist(xs):
    return "[" + "; ".join(str(x) for x in xs) + "]"


SER_STRINGS = ["gEndElement", "gEndPI", "gStartPI", "gXMLDecl_VersionInfo", "gXMLDecl_EncodingDecl", "gXMLDecl_SDDecl",
               "gXMLDecl_separator", "gXMLDecl_endtag", "gStartCDATA", "gEndCDATA", "gStartComment", "gEndComment",
               "gStartDoctype", "gPublic", "gSystem"]


def read_all():
    ch = ch_constants()
    cpp = read("framework/XMLFormatter.cpp")
    hpp = read("framework/XMLFormatter.hpp")
    ser = read("dom/impl/DOMLSSerializerImpl.cpp")
    modes = enum_names(hpp, "EscapeFlags")
    if modes[-1] != "EscapeFlags_Count":
        raise TranslateError("enum EscapeFlags does not end with EscapeFlags_Count: %s" % modes)
    modes = modes[:-1]
    if sorted(modes) != sorted(["NoEscapes", "StdEscapes", "AttrEscapes", "CharEscapes"]):
        raise TranslateError("unexpected escape modes %s" % modes)
    unrep = enum_names(hpp, "UnRepFlags")
    m = re.search(r"kEscapeCount\s*=\s*(\d+)\s*;", cpp)
    if not m:
        raise TranslateError("kEscapeCount not found")
    kcount = int(m.group(1))
    rows_txt = re.findall(r"\{([^{}]*)\}", body_of(cpp, "gEscapeChars"))
    rows = [units(r, ch) for r in rows_txt]
    if len(rows) != len(modes) or any(len(r) != kcount for r in rows):
        raise TranslateError("gEscapeChars: %d rows of %s entries for %d modes x %d" % (len(rows), [len(r) for r in rows], len(modes), kcount))
    refs = {n: zstring(cpp, n, ch) for n in ["gAmpRef", "gAposRef", "gGTRef", "gLTRef", "gQuoteRef"]}
    # the switch in formatBuf: case chX : theChars = getCharRef(fYLen, fYRef, gYRef);
    sw = re.findall(r"case\s+(ch\w+)\s*:\s*theChars\s*=\s*getCharRef\s*\(\s*\w+\s*,\s*\w+\s*,\s*(g\w+Ref)\s*\)", cpp)
    if len(sw) != 5:
        raise TranslateError("formatBuf switch: expected 5 named references, found %s" % sw)
    switch = [(ch[c], r) for c, r in sw]
    m = re.search(r"kTmpBufSize\s*=\s*([^,}\n]+)", hpp)
    if not m:
        raise TranslateError("kTmpBufSize not found")
    expr = m.group(1).strip()
    if not re.match(r"^[\d\s*]+$", expr):
        raise TranslateError("kTmpBufSize expression not understood: %s" % expr)
    ktmp = eval(expr)
    sers = {n: zstring(ser, n, ch) for n in SER_STRINGS}
    return {"modes": modes, "unrep": unrep, "kcount": kcount, "rows": rows, "refs": refs, "switch": switch,
            "ktmp": ktmp, "ser": sers}


def generate():
    d = read_all()
    out = ("(* GENERATED by translator/c12_esc.py from src/xercesc/framework/XMLFormatter.{cpp,hpp} and\n"
           "   src/xercesc/dom/impl/DOMLSSerializerImpl.cpp -- do not edit; regenerated on every check *)\n"
           "From Coq Require Import NArith List.\nImport ListNotations.\nLocal Open Scope N_scope.\n\n")
    out += "(* enum EscapeFlags order: %s ; enum UnRepFlags order: %s *)\n" % (" ".join(d["modes"]), " ".join(d["unrep"]))
    out += "Definition kEscapeCount : N := %d.\n" % d["kcount"]
    for name, row in zip(d["modes"], d["rows"]):
        out += "Definition esc_row_%s : list N := %s.\n" % (name, clist(row))
    out += "Definition gEscapeChars : list (list N) := [%s].\n" % "; ".join("esc_row_" + n for n in d["modes"])
    for n, v in d["refs"].items():
        out += "Definition %s : list N := %s.\n" % (n, clist(v))
    out += "(* the switch on the escaped character in XMLFormatter::formatBuf: character -> reference string *)\n"
    out += "Definition esc_switch : list (N * list N) := [%s].\n" % "; ".join("(%d, %s)" % (c, r) for c, r in d["switch"])
    out += "Definition kTmpBufSize : N := %d.\n" % d["ktmp"]
    for n, v in d["ser"].items():
        out += "Definition ser_%s : list N := %s.\n" % (n, clist(v))
    V.write_if_changed(os.path.join(V.COQ, "theories", "Gen", "GenEsc.v"), out)
    return d


if __name__ == "__main__":
    print(generate())
