"""C20: reads from /repo's source which of the four XInclude repairs the code contains (the model's defect switches).
A wrong reading cannot hide a defect: the correspondence then shows divergences (the check reports which switch setting
the implementation really follows)."""
import os
import re


def _read(repo, rel):
    with open(os.path.join(repo, rel), encoding="utf-8", errors="replace") as f:
        return f.read()


def detect(repo):
    """returns (flags, evidence): flags = subset of 'bnce' in that order of meaning
       b C20-F2  doXIncludeXMLFileDOM prefixes the included root's own xml:base with the directory of the relative href
       n C20-F4  XIncludeLocation::prependPath normalises its result
       c C20-F7  the fix-up test compares the base URI at the parent of the xi:include
       e C20-F1  AbstractDOMParser::endElement leaves XInclude elements below an xi:fallback alone"""
    utils = _read(repo, "src/xercesc/xinclude/XIncludeUtils.cpp")
    loc = _read(repo, "src/xercesc/xinclude/XIncludeLocation.cpp")
    dom = _read(repo, "src/xercesc/parsers/AbstractDOMParser.cpp")
    ev = {}
    m = re.search(r"DOMDocument \*\s*XIncludeUtils::doXIncludeXMLFileDOM.*?\n}\n", utils, re.S)
    body = m.group(0) if m else ""
    if not body:
        raise RuntimeError("doXIncludeXMLFileDOM not found")
    ev["b"] = bool(re.search(r"xil\.prependPath\(\s*relativeHref\s*\)", body))
    ev["c"] = bool(re.search(r"XMLUri\s+parentURI\([^;]*getParentNode|getParentNode\(\)[^;]*;\s*XMLUri\s+parentURI", body, re.S))
    m = re.search(r"XIncludeLocation::prependPath.*?\n}\n", loc, re.S)
    pbody = m.group(0) if m else ""
    if not pbody:
        raise RuntimeError("prependPath not found")
    ev["n"] = bool(re.search(r"catString\(relativeHref, hrefPath\);.*removeDotDotSlash\(\s*relativeHref\s*\)", pbody, re.S))
    m = re.search(r"void AbstractDOMParser::endElement.*?\n}\n", dom, re.S)
    ebody = m.group(0) if m else ""
    if not ebody:
        raise RuntimeError("endElement not found")
    ev["e"] = bool(re.search(r"isXIFallbackDOMNode\(\s*anc\s*\)", ebody)) and "insideFallback" in ebody
    flags = "".join(c for c in "bnce" if ev[c])
    return flags, ev
