// Side check (unpatched HEAD): schema grammar first switched in at element depth >= 32
#include <xercesc/util/PlatformUtils.hpp>
#include <xercesc/util/XMLUni.hpp>
#include <xercesc/parsers/XercesDOMParser.hpp>
#include <xercesc/sax/HandlerBase.hpp>
#include <xercesc/framework/MemBufInputSource.hpp>
#include <xercesc/validators/common/Grammar.hpp>
#include <cstdio>
#include <cstring>
#include <string>
using namespace XERCES_CPP_NAMESPACE;
int main(int argc, char** argv)
{
    int depth = argc > 1 ? atoi(argv[1]) : 40;
    XMLPlatformUtils::Initialize();
    {
        const char* xsd = "<xs:schema xmlns:xs='http://www.w3.org/2001/XMLSchema' targetNamespace='urn:x' elementFormDefault='qualified'>"
                          "<xs:element name='e' type='xs:string'/></xs:schema>";
        HandlerBase h;
        XercesDOMParser p;
        p.setErrorHandler(&h);
        p.setDoNamespaces(true);
        p.setDoSchema(true);
        p.setValidationScheme(XercesDOMParser::Val_Auto);
        MemBufInputSource s((const XMLByte*)xsd, strlen(xsd), "x.xsd");
        p.loadGrammar(s, Grammar::SchemaGrammarType, true);
        p.useCachedGrammarInParse(true);
        std::string d;
        for (int i = 0; i < depth; i++) d += "<n>";
        d += "<x:e xmlns:x='urn:x'>t</x:e>";
        for (int i = 0; i < depth; i++) d += "</n>";
        MemBufInputSource doc((const XMLByte*)d.data(), d.size(), "d.xml");
        try { p.parse(doc); } catch (...) { printf("exception\n"); }
    }
    XMLPlatformUtils::Terminate();
    printf("done\n");
    return 0;
}
